"""Entry point: python -m harness.run <Cxx> [--tier quick|thorough]"""
import importlib
import os
import sys
import traceback


def main(argv):
    if not argv:
        print("usage: bin/check <Cxx> [--tier quick|thorough]")
        return 2
    pid = argv[0].upper()
    tier = os.environ.get("VERIF_TIER", "quick")
    if "--tier" in argv:
        tier = argv[argv.index("--tier") + 1]
    if tier not in ("quick", "thorough"):
        tier = "quick"
    os.environ["VERIF_TIER"] = tier
    try:
        mod = importlib.import_module("harness." + pid.lower())
    except ModuleNotFoundError:
        print(f"no driver for {pid}")
        return 2
    try:
        if "--replay" in argv:
            # a replay file names one violation of one deterministic run (property, tier, seed, signature): the same
            # run is made again and only that signature is looked for; evidence of a replay goes to a scratch place
            import json
            import tempfile
            with open(argv[argv.index("--replay") + 1], encoding="utf-8") as f:
                rec = json.load(f)
            if rec.get("property") != pid:
                print(f"replay file is for {rec.get('property')}, not {pid}")
                return 2
            tier = rec.get("tier", tier)
            os.environ["VERIF_TIER"] = tier
            os.environ["VERIF_SEED"] = str(rec.get("seed", 0))
            os.environ["VERIF_ONLY_SIGNATURE"] = rec["signature"]
            os.environ.setdefault("VERIF_EVIDENCE_DIR", tempfile.mkdtemp(prefix="verif-replay-evidence-"))
            rc = mod.main(tier)
            print(f"REPLAY property={pid} signature={rec['signature']!r}: " + ("still violated" if rc == 1 else "not reproduced"))
            return rc
        return mod.main(tier)
    except SystemExit as e:
        # drivers RETURN their verdict; an exit raised underneath them (e.g. the implementation's Q element run
        # in this process) must never look like a pass
        traceback.print_exc()
        print(f"MACHINERY-FAILURE property={pid} (stray SystemExit {e.code!r})")
        return 2
    except BaseException:  # noqa: BLE001  machinery failure, never a verdict
        traceback.print_exc()
        print(f"MACHINERY-FAILURE property={pid}")
        return 2


if __name__ == "__main__":
    sys.exit(main(sys.argv[1:]))
