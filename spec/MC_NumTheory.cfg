SPECIFICATION Spec
CONSTANT MaxN = 400
INVARIANT IsqrtOK
INVARIANT PrimeHasTwoDivisors
INVARIANT GcdLcm
INVARIANT TotientAgrees
INVARIANT TotientRejects
INVARIANT DivisorsLaw
INVARIANT DivisorsRejects
INVARIANT BinaryLaw
CHECK_DEADLOCK FALSE
