---- MODULE MC_LazyList ----
(***************************************************************************)
(* C13 at design level.  The environment chooses a finite source list and  *)
(* then any history of observations; TLC checks that the memoising         *)
(* implementation layer refines the plain list:                            *)
(*   Refines     -- the answer just given equals the plain-list answer     *)
(*   CachePrefix -- the cache is a prefix of the source, cursor = length   *)
(*   AppendOnly  -- observations only ever extend the cache                *)
(***************************************************************************)
EXTENDS VyLazyList, TLC

CONSTANTS Vals, MaxLen

Sources == UNION {[1..n -> Vals] : n \in 0..MaxLen}

Ops ==
    {Op("Index", i, 0, 0) : i \in {0, 1, 2, 4}} \cup
    {Op("NegIndex", k, 0, 0) : k \in {1, 2}} \cup
    {Op("SliceTo", 0, 2, 1), Op("SliceTo", 1, 3, 1), Op("SliceTo", 0, 4, 2), Op("SliceTo", 1, 5, 1)} \cup
    {Op("SliceNegStop", 0, 1, 1)} \cup
    {Op("SliceFrom", 0, 0, 1), Op("SliceFrom", 1, 0, 1), Op("SliceFrom", 0, 0, 2)} \cup
    {Op("Len", 0, 0, 0), Op("Iter", 0, 0, 0), Op("Bool", 0, 0, 0), Op("Listify", 0, 0, 0),
     Op("Reversed", 0, 0, 0), Op("Copy", 0, 0, 0)} \cup
    {Op("Contains", x, 0, 0) : x \in {0, 2}} \cup
    {Op("Eq", e, 0, 0) : e \in 0..4} \cup
    {Op("Count", 1, 0, 0)} \cup
    {Op("HasInd", i, 0, 0) : i \in {0, 2, 3}} \cup
    {Op("IterTake", 1, 0, 0), Op("IterDrain", 0, 0, 0), Op("CopyIndex", 0, 0, 0), Op("CopyIndex", 1, 0, 0),
     Op("CopyList", 0, 0, 0)}

VARIABLES src, st, ait, lastop, last, expect
vars == <<src, st, ait, lastop, last, expect>>

Init == /\ src \in Sources
        /\ st = InitImpl
        /\ ait = -1
        /\ lastop = Op("None", 0, 0, 0)
        /\ last = RE("none")
        /\ expect = RE("none")

Observe(o) ==
    LET r == ImplDo(src, st, o)
    IN /\ last' = r[1]
       /\ st' = r[2]
       /\ lastop' = o
       /\ expect' = AbsAnswer(src, ait, o)
       /\ ait' = AbsItAfter(src, ait, o)
       /\ UNCHANGED src

Next == \E o \in Ops : Observe(o)
Spec == Init /\ [][Next]_vars

Refines == last = expect
CachePrefix == /\ IsPrefixOf(st.gen, src) /\ st.raw = Len(st.gen)
               /\ IsPrefixOf(st.cp.gen, src)            \* the copy caches a prefix of the same list
IteratorsAgree == st.it = ait
AppendOnly == [][IsPrefixOf(st.gen, st'.gen)]_vars
====
