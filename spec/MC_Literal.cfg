SPECIFICATION Spec
CONSTANT MaxPayload = 2
INVARIANT ShapeInvariant
INVARIANT OneToken
CHECK_DEADLOCK FALSE
