"""bin/setup: stage the specification suite with its generated data modules and run SANY on every module."""
import glob
import os
import sys

from . import c03, c18, common, emit, extract, tlc


def main():
    bad = 0
    with common.Scratch("setup") as s:
        extra = {"MC_LiteralData.tla": c03.data_module(c03.data()),
                 "VyConfigData.tla": extract.config_module(extract.codepage()),
                 "VyEmitData.tla": emit.data_module(),
                 "VyEscapeData.tla": c18.escape_data_module()}
        d = tlc.stage(s, extra)
        mods = sorted(os.path.basename(p) for p in glob.glob(os.path.join(d, "*.tla")))
        for m in mods:
            ok, out = tlc.sany(m, cwd=d)
            if not ok or "Fatal errors" in out or "*** Errors" in out:
                bad += 1
                print("SANY FAILED:", m)
                print(out[-1500:])
        print(f"setup: {len(mods)} modules parsed, {bad} failed")
    return 1 if bad else 0


if __name__ == "__main__":
    sys.exit(main())
