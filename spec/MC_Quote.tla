---- MODULE MC_Quote ----
(***************************************************************************)
(* C06 at design level: Quote (the q element on strings) composed with the *)
(* lexer's string branch, the transpiler's escaping loop and Python's      *)
(* literal decoding is the identity.  The environment feeds the string     *)
(* character by character from the escape-relevant alphabet.               *)
(***************************************************************************)
EXTENDS VyEscape, TLC

CONSTANTS Alphabet, MaxLen

RECURSIVE QuoteBody(_)
QuoteBody(s) ==
    IF s = <<>> THEN <<>>
    ELSE (IF Head(s) = c_bslash THEN <<c_bslash, c_bslash>>
          ELSE IF Head(s) = c_btick THEN <<c_bslash, c_btick>> ELSE <<Head(s)>>) \o QuoteBody(Tail(s))
Quote(s) == <<c_btick>> \o QuoteBody(s) \o <<c_btick>>

VARIABLE str
Init == str = <<>>
Feed(c) == Len(str) < MaxLen /\ str' = Append(str, c)
Next == \E c \in Alphabet : Feed(c)
Spec == Init /\ [][Next]_str

Toks == Lex(Quote(str))
OneStringToken == Len(Toks) = 1 /\ Toks[1].k = "string"
Emitted == EscapeAll(FALSE, Toks[1].v)
LiteralCloses == ScanAll("in", Emitted) = "in" /\ ScanAll("in", Emitted \o <<c_dquote>>) = "closed"
RoundTrip == OneStringToken /\ Decode(Emitted) = str
====
