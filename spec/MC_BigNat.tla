---- MODULE MC_BigNat ----
(***************************************************************************)
(* Sanity of the BigNat / VyNumber definitions against TLC's native        *)
(* arithmetic on a small domain (exhaustive): the environment picks two    *)
(* digit strings; conversion, addition, multiplication, comparison and     *)
(* Denote agree with the native values.                                    *)
(***************************************************************************)
EXTENDS VyNumber

CONSTANT MaxDigits
DigitStrings == UNION {[1..n -> 0..9] : n \in 1..MaxDigits}
Sample == {<<9,9,9,9>>, <<1,0,0,0,0>>, <<9,9,9,9,9,9,9,9>>, <<1,0,0,0,0,0,0,0,0>>, <<1,2,3,4,5,6,7,8,9>>,
           <<0>>, <<0,0,1>>, <<4,0,0,0,0>>, <<2,1,4,7,4>>}

VARIABLES x, y
Init == x \in DigitStrings \cup Sample /\ y \in Sample \cup {<<7>>, <<1,0>>, <<9,9>>, <<1,0,0>>}
Next == FALSE /\ UNCHANGED <<x, y>>
Spec == Init /\ [][Next]_<<x, y>>

Nat9(ds) == Small(ds)      \* native value (Small recurses over any length)
Fits(a, b) == Len(a) + Len(b) <= 9

ConvOK == BigToNat(FromDigits(x)) = Nat9(x)
AddOK == BigToNat(BigAdd(FromDigits(x), FromDigits(y))) = Nat9(x) + Nat9(y)
MulOK == Fits(x, y) => BigToNat(BigMul(FromDigits(x), FromDigits(y))) = Nat9(x) * Nat9(y)
LeqOK == BigLeq(FromDigits(x), FromDigits(y)) = (Nat9(x) <= Nat9(y))
EqOK == BigEq(FromDigits(x), FromDigits(y)) = (Nat9(x) = Nat9(y))
(* Denote: "x.y" spells x * 10^|y| + y over 10^|y| *)
DenoteOK == Fits(x, y) =>
    LET s == [i \in 1..Len(x) |-> x[i] + 48] \o <<c_dot>> \o [i \in 1..Len(y) |-> y[i] + 48]
        d == Denote(s)
    IN /\ BigToNat(d[2]) = 10 ^ Len(y)
       /\ BigToNat(d[1]) = Nat9(x) * 10 ^ Len(y) + Nat9(y)
====
