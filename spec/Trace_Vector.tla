---- MODULE Trace_Vector ----
(***************************************************************************)
(* C08 on the implementation.  One trace = one call of a vectorising       *)
(* element on list arguments:                                              *)
(*   ar (1|2), a, b (tagged values), res (forced result), err              *)
(*   tab: the element's own results on every scalar leaf / leaf pair the   *)
(*        pairing structure can demand (asked from the real element by the *)
(*        harness: the specification does not know what the element does)  *)
(* Prop_C08: res = Vec(tab, a, b), the structure computed by TLC.          *)
(***************************************************************************)
EXTENDS VyVector, Json, IOUtils, TLC, TLCExt

BatchFile == JsonDeserialize(IOEnv.TRACE_FILE)
ASSUME TLCSet(7, BatchFile)
Batch == TLCGet(7)

VARIABLES tid, phase
T == Batch[tid]

Verdict(t) ==
    LET want == IF t.ar = 1 THEN Vec1(t.tab, t.a) ELSE Vec2(t.tab, t.a, t.b)
    IN IF HasMissing(want) THEN "skip:leaf-call-failed"
       ELSE IF t.err # "" THEN "violation:raised-" \o t.err
       ELSE IF t.res # want THEN "violation:not-element-wise"
       ELSE "ok"

Init == tid \in 1..Len(Batch) /\ phase = "start"
Decide == /\ phase = "start" /\ phase' = "done" /\ tid' = tid
          /\ PrintT(<<"V", tid, Verdict(T)>>)
Next == Decide
====
