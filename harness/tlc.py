"""Running TLC: design-level model checking of MC_* configs and batched
validation of implementation traces against Trace_* modules.

Trace batches are *wide*: every trace of a batch is its own behaviour
(`Init == tid \\in 1..Len(Batch)`), because TLC's breadth-first search costs a
synchronisation per level (measured: a 20 000-step linear chain takes 46 s,
3 000 traces x 10 steps side by side take 2.5 s).
"""
from __future__ import annotations

import concurrent.futures as cf
import json
import os
import re
import shutil
import subprocess
import time

from . import common

JAR = "/opt/veriftools/tla/tla2tools.jar:/opt/veriftools/tla/CommunityModules-deps.jar"
SPEC = os.path.join(common.VERIF, "spec")

_STATES = re.compile(r"(\d+) states generated, (\d+) distinct states found")
_DEPTH = re.compile(r"depth of the complete state graph search is (\d+)")
_VERD = re.compile(r'<<"([A-Z])", (-?\d+), "((?:[^"\\]|\\.)*)">>')


class TLCFailure(Exception):
    """machinery failure (exit code 2 territory), never a property verdict"""


def _java(args, cwd, env=None, timeout=1800, xss="256m", xmx="4g", gc="-XX:+UseParallelGC"):
    e = dict(os.environ)
    e.pop("JAVA_TOOL_OPTIONS", None)
    if env:
        e.update(env)
    # TLC unpacks its standard modules into a fresh directory under java.io.tmpdir on every start and leaves it
    # behind: keep that inside the scratch directory of the run, which is removed afterwards
    jtmp = os.path.join(cwd, ".jtmp")
    os.makedirs(jtmp, exist_ok=True)
    cmd = ["java", gc, f"-Djava.io.tmpdir={jtmp}", f"-Xss{xss}", f"-Xmx{xmx}", "-cp", JAR, "tlc2.TLC"] + args
    t0 = time.time()
    try:
        p = subprocess.run(
            cmd, cwd=cwd, env=e, stdout=subprocess.PIPE, stderr=subprocess.STDOUT,
            timeout=timeout, text=True, errors="replace",
        )
    except subprocess.TimeoutExpired as ex:
        raise TLCFailure(f"TLC timeout after {timeout}s: {' '.join(args)}") from ex
    return p.returncode, p.stdout, time.time() - t0


def stage(scratch, extra_files=None):
    """Copy the specification suite into scratch/spec (plus generated modules)."""
    d = os.path.join(scratch, "spec")
    if not os.path.isdir(d):
        shutil.copytree(SPEC, d)
    for name, text in (extra_files or {}).items():
        with open(os.path.join(d, name), "w", encoding="utf-8") as f:
            f.write(text)
    return d


def parse_stats(out):
    m = None
    for m in _STATES.finditer(out):
        pass
    st = {"generated": 0, "distinct": 0, "depth": 0}
    if m:
        st["generated"], st["distinct"] = int(m.group(1)), int(m.group(2))
    d = _DEPTH.search(out)
    if d:
        st["depth"] = int(d.group(1))
    return st


def model_check(scratch, module, cfg=None, workers=16, timeout=1800, env=None,
                extra_files=None, simulate=None, xss="256m", xmx="8g", coverage=False):
    """Run TLC on spec/<module>.tla with spec/<cfg or module>.cfg.

    Returns dict(ok, rc, out, generated, distinct, depth, wall, violated)
    ok == True  <=> TLC finished and found no error.
    A violated invariant/property is reported in `violated` (name) with ok False.
    Anything else that is not a clean finish raises TLCFailure.
    """
    d = stage(scratch, extra_files)
    meta = os.path.join(scratch, f"meta-{module}-{cfg or ''}-{time.time_ns()}")
    args = ["-workers", str(workers), "-metadir", meta, "-noGenerateSpecTE"]
    if cfg:
        args += ["-config", cfg if cfg.endswith(".cfg") else cfg + ".cfg"]
    if simulate:
        args += ["-simulate", simulate]
    if coverage:
        args += ["-coverage", "1"]
    args.append(module)
    rc, out, wall = _java(args, d, env=env, timeout=timeout, xss=xss, xmx=xmx)
    st = parse_stats(out)
    res = dict(ok=False, rc=rc, out=out, wall=wall, violated=None, **st)
    shutil.rmtree(meta, ignore_errors=True)
    if rc == 0 and "No error has been found" in out or (simulate and rc == 0):
        res["ok"] = True
        return res
    m = re.search(r"Invariant (\S+) is violated", out)
    if m:
        res["violated"] = m.group(1)
        return res
    m = re.search(r"Action property (\S+) is violated", out) or re.search(
        r"Temporal properties were violated", out
    )
    if m:
        res["violated"] = m.group(1) if m.groups() else "temporal"
        return res
    if "Assumption" in out and "is false" in out:
        res["violated"] = "ASSUME"
        return res
    raise TLCFailure(f"TLC rc={rc} on {module}/{cfg}:\n" + out[-3000:])


def counterexample(out, limit=4000):
    i = out.find("Error:")
    return out[i:i + limit] if i >= 0 else out[-limit:]


def _one_batch(args):
    d, module, cfg, path, idx, scratch, timeout, xss, xmx = args
    meta = os.path.join(scratch, f"meta-{module}-{idx}")
    a = ["-workers", "1", "-metadir", meta, "-noGenerateSpecTE"]
    if cfg:
        a += ["-config", cfg]
    a.append(module)
    rc, out, wall = _java(a, d, env={"TRACE_FILE": path}, timeout=timeout, xss=xss,
                          xmx=xmx, gc="-XX:+UseSerialGC")
    shutil.rmtree(meta, ignore_errors=True)
    return rc, out, wall


def validate(scratch, module, traces, chunk=2000, jvms=None, timeout=1800,
             extra_files=None, cfg=None, xss="512m", xmx="3g"):
    """Validate implementation traces with spec/<module>.tla.

    `traces` is a list of JSON-able dicts; a field "tid" is (re)assigned 1..n
    per batch.  The module prints one `<<"V", tid, "<verdict>">>` line per
    trace.  Returns (verdicts, stats): verdicts[i] is the verdict string of
    traces[i]; a trace without a verdict line is a machinery failure.
    """
    d = stage(scratch, extra_files)
    jvms = jvms or min(12, max(1, (os.cpu_count() or 4) - 2))
    jobs = []
    spans = []
    for bi, lo in enumerate(range(0, len(traces), chunk)):
        part = traces[lo:lo + chunk]
        for k, t in enumerate(part):
            t["tid"] = k + 1
        p = os.path.join(scratch, f"batch-{module}-{bi}-{time.time_ns()}.json")
        with open(p, "w", encoding="utf-8") as f:
            json.dump(part, f)
        jobs.append((d, module, cfg, p, bi, scratch, timeout, xss, xmx))
        spans.append((lo, len(part)))
    verdicts = [None] * len(traces)
    extra = {}  # other tags: tag -> list (per trace) of the last line with that tag
    stats = {"generated": 0, "distinct": 0, "depth": 0, "jvm_runs": len(jobs), "wall": 0.0}
    with cf.ThreadPoolExecutor(max_workers=jvms) as ex:
        results = list(ex.map(_one_batch, jobs))
    for (lo, n), (rc, out, wall), job in zip(spans, results, jobs):
        st = parse_stats(out)
        stats["generated"] += st["generated"]
        stats["distinct"] += st["distinct"]
        stats["depth"] = max(stats["depth"], st["depth"])
        stats["wall"] += wall
        for m in _VERD.finditer(out):
            tid = int(m.group(2))
            if m.group(1) != "V":
                if 1 <= tid <= n:
                    extra.setdefault(m.group(1), [None] * len(traces))[lo + tid - 1] = m.group(3)
                continue
            if 1 <= tid <= n:
                v = m.group(3)
                cur = verdicts[lo + tid - 1]
                # a trace may print several lines; the worst one wins
                if cur is None or (cur == "ok" and v != "ok"):
                    verdicts[lo + tid - 1] = v
        missing = [k for k in range(n) if verdicts[lo + k] is None]
        if rc != 0 or missing:
            raise TLCFailure(
                f"trace validation {module} batch rc={rc}, {len(missing)} traces "
                f"without verdict (first tid {missing[:3]}):\n" + out[-3000:]
            )
        try:
            os.remove(job[3])
        except OSError:
            pass
    stats["extra"] = extra
    return verdicts, stats


def sany(module, cwd=SPEC):
    p = subprocess.run(
        ["java", "-cp", JAR, "tla2sany.SANY", module],
        cwd=cwd, stdout=subprocess.PIPE, stderr=subprocess.STDOUT, text=True,
    )
    ok = p.returncode == 0 and "error" not in p.stdout.lower().replace("errors: 0", "")
    return ok, p.stdout
