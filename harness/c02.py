"""C02 Every well-formed program transpiles to Python that compiles.

Spec:  MC_Emit (VyEmit line-structure lowering of every program <= 4/5 tokens
       over the 21-token structural alphabet is valid Python block structure).
Bind:  transpile() of the implementation on the same programs, on every
       element/modifier key in every position class, on end-truncations and
       on random deep programs; TLC decides well-formedness, Prop_C02
       (compiles) and the conformance of the observed line structure.
"""
from __future__ import annotations

import time

from . import common, emit, extract, gen, tlc
from .common import cps

PID = "C02"
ALPHA = ["1", "[", "(", "{", "λ", "ƛ", "'", "µ", "⟨", "@", "f", "|", ";", "]", ")", "}", "⟩", "X", "x", "v", "₌"]

POSITIONS = ["□", "1□1", "[□]", "[1|□]", "(□)", "(a|□)", "{1|□}", "{□|1}", "λ□;", "λ2|□;", "ƛ□;", "@f|□;",
             "@f:1:a|□;", "⟨□⟩", "⟨1|□⟩", "v□", "₌□+", "₌+□", "≬++□", "R□", "□R", "[(λ⟨□⟩;)]", "(□", "λ□", "⟨□", "[1|□"]

PY_ESCAPES = ["\\x", "\\N", "\\u", "\\U"]


def observe(text):
    from vyxal.transpile import transpile

    dc = True
    if text.startswith("\x00D"):          # marker: transpile with dictionary compression off (flag D)
        text, dc = text[2:], False
    try:
        code = transpile(text, dc)
    except RecursionError:
        return {"text": cps(text), "err": "RecursionError", "compiled": False, "lines": [], "cmp": False}
    except Exception as e:  # noqa: BLE001
        return {"text": cps(text), "err": type(e).__name__, "compiled": False, "lines": [], "cmp": False}
    try:
        import warnings

        with warnings.catch_warnings():
            warnings.simplefilter("ignore")
            compile(code, "<vyxal>", "exec")
        ok = True
        cerr = ""
    except (SyntaxError, ValueError) as e:
        ok = False
        cerr = str(e)[:120]
    ls = emit.line_structure(code)
    odd = any(l["odd"] for l in ls)
    return {"text": cps(text), "err": "", "compiled": ok, "cerr": cerr, "dc": dc,
            "lines": [{"ind": l["ind"], "k": l["k"]} for l in ls],
            # a backslash-newline inside a string literal is a Python line continuation: the literal spans two
            # physical lines, which the line projector does not model
            "cmp": not odd and len(ls) <= 400 and "\\\n" not in text}


def trailing(text):
    n = 0
    while n < len(text) and text[len(text) - 1 - n] in gen.CLOSERS:
        n += 1
    return n


def cases(tier, rng):
    out = []
    n = 4 if tier == "quick" else 5
    out += list(gen.exhaustive(ALPHA, n, 0))
    elems, mods = extract.element_table()
    keys = list(dict.fromkeys(e["key"] for e in elems))
    for k in keys:
        for pos in (POSITIONS if tier == "thorough" else POSITIONS[:21]):
            out.append(pos.replace("□", k))
    for m in list("v⁽&~ßƒɖ") + list("₌‡₍") + ["≬"]:
        ar = 1 if m in "v⁽&~ßƒɖ" else 2 if m in "₌‡₍" else 3
        for pos in POSITIONS:
            for op in (["+"], ["1"], ["λ+;"], ["[1|2]"], ["x"], ["X"], ["R"], ["vN"]):
                out.append(pos.replace("□", m + (op[0] * ar if len(op[0]) == 1 else op[0] + "+" * (ar - 1))))
    g = gen.Gen(rng, atoms=[k for k in keys if k not in ("Q",)], strings=True)
    for _ in range(2000 if tier == "quick" else 50000):
        out.append(g.program(depth=4))
    base = list(dict.fromkeys(out))
    # end-truncations
    for p in base[:: (3 if tier == "quick" else 1)]:
        for k in range(1, trailing(p) + 1):
            out.append(p[: len(p) - k])
    # literal kinds with characters that are special to Python string syntax
    for lit in ["`a\"b`", "`a'b`", "`a\\nb`", "`\\\\`", "`a\\`b`", "`\n`", "`\t`", "‛\"'", "‛\\\\", "\\\"", "\\\\", "\\'", "\\\n",
                "«a\"«", "»\"'»", "⁺\"", "⁺\\", "`{}`", "`%s`", "`\\n`", "`\\t`", "`\\0`", "`\\'`", "`\\\"`", "`\\a\\b\\f\\r\\v`"]:
        out.append(lit)
        out.append("[" + lit + "|1]")
    for e in PY_ESCAPES:
        out.append("`" + e + "`")
        out.append("`ab" + e + "`")
    # every string body <= 3 over the escape-relevant characters, as back-quoted and two-character strings,
    # closed and end-truncated, alone and inside structures, with compression on and off
    import itertools
    esc = "\\`\"'\nan"
    for L in range(0, 4):
        for tup in itertools.product(esc, repeat=L):
            b = "".join(tup)
            for lit in ("`" + b + "`", "`" + b, "‛" + b[:2]):
                for ctx in ("□", "[□|2]", "λ□;", "⟨□⟩"):
                    p = ctx.replace("□", lit)
                    out.append(p)
                    out.append("\x00D" + p)
    # WIDTH: structures with many branches / items / parameters (templates whose indentation or
    # nesting is computed per branch), closed, end-truncated and nested
    for k in range(1, 10 if tier == "quick" else 14):
        brs = "|".join(str(j % 10) for j in range(1, k + 1))
        for o, c in (("[", "]"), ("⟨", "⟩"), ("{", "}"), ("(", ")"), ("λ", ";"), ("@f:", ";")):
            body = brs if o != "@f:" else ":".join(["1", "a", "2", "b", "*"][: max(1, k % 6)]) + "|" + brs.replace("|", " ")
            for ctx in ("□", "λ□;", "[1|□]", "(□)", "⟨□⟩", "@g|□;", "v□"):
                out.append(ctx.replace("□", o + body + c))
                out.append(ctx.replace("□", o + body))
            out.append(o + body + "|")
    # numeric and named function parameters in every written form (leading zeros, several digits, mixed)
    for par in ["0", "1", "2", "00", "01", "02", "007", "010", "10", "09", "99", "a", "ab", "*", "_a", "1:2", "01:a", "a:02", "0:0",
                "2:b:03", "a:b:c"]:
        for ctx in ("@f:□|+;", "(@f:□|W;)", "@h:x:□|+;", "λ@f:□|1;;", "@f:□|1;@f;", "@f:□|", "[1|@f:□|n;]"):
            out.append(ctx.replace("□", par))
    # DATA whose text is a syntax-significant character, in every literal kind, at every position of the C03 contexts:
    # the program must still be accepted and compile
    from . import c03
    d3 = c03.data()
    for ctx in d3["contexts"]:
        for kind in c03.KINDS:
            n = 2 if kind == "twochar" else 1
            for ch in d3["payload_alphabet"]:
                out.append(ctx.replace(d3["hole"], c03.literal(kind, ch * n)))
    # bodies and branches that consist ONLY of tokens that do nothing (layout newline, space, a lone digraph head,
    # an unassigned digraph): every structure position must still be a valid (non-empty) Python block
    for nop in ["\n", " ", "k", "∆", "ø", "Þ", "¨", "kÞ", "∆Þ", "øø", "\n\n", " \n", "k ", "#c\n", "¨k"]:
        for ctx in ("1[□|2]", "1[2|□]", "1[□]", "0[1|□|3]", "0[1|2|□]", "3(□)", "3(i|□)", "{□}", "1{□|2}", "1{2|□}", "λ□;", "λ2|□;",
                    "ƛ□;", "'□;", "µ□;", "⟨□⟩", "⟨1|□⟩", "⟨□|1⟩", "@f|□;", "@f:1|□;", "v□", "₌□+", "≬++□", "[(λ⟨□⟩;)]", "1[□", "3(□", "λ□"):
            out.append(ctx.replace("□", nop))
    # every PAIR of dictionary-compression characters as a string (the two-character codes index the dictionary:
    # its last valid index and the first invalid one are among them), and every single one
    from vyxal.encoding import compression
    for c1 in compression:
        out.append("`" + c1 + "`")
        out.append("‛" + c1 + "a")
        for c2 in compression:
            out.append("`" + c1 + c2 + "`")
    # NAMES written with any plain character of the code page (the parser / transpiler keep identifier characters)
    from vyxal.encoding import codepage
    for ch in codepage:
        for ctx in ("@f□;", "@f□|1;", "@□g:1|1;", "(□|1)", "(a□|1)", "λ@f□|1;@f□;;", "@□;", "→a□", "←□a"):
            out.append(ctx.replace("□", ch))
    # every code-page character inside every kind of string literal, dictionary compression on and off
    for ch in codepage:
        for lit in ("`□`", "`a□b`", "`□", "‛□a", "‛a□", "«□a«", "»□1»", "\\□", "⁺□", "`□□`"):
            p = lit.replace("□", ch)
            out.append(p)
            out.append("[" + p + "|1]" if not p.endswith(("«", "»")) or True else p)
            out.append("\x00D" + p)
    for _ in range(1500 if tier == "quick" else 40000):
        body = "".join(rng.choice(codepage) for _ in range(rng.randint(2, 4)))
        if "`" in body:
            continue
        out.append("`" + body + "`")
    return list(dict.fromkeys(out))


def signature(text, cerr):
    for e in PY_ESCAPES:
        if e in text and ("escape" in cerr or "truncated" in cerr or "malformed" in cerr or "unicode" in cerr.lower()):
            return "py-escape:" + e
    return "program:" + repr(text)


def main(tier):
    t0 = time.time()
    rng = common.rng(2)
    V = common.Verdicts(PID)
    common.import_repo()
    extra = {"VyEmitData.tla": emit.data_module()}
    with common.Scratch(PID) as s:
        mc = tlc.model_check(s, "MC_Emit", cfg="MC_Emit_quick" if tier == "quick" else "MC_Emit", workers=16,
                             extra_files=extra)
        if not mc["ok"]:
            V.add("spec:MC_Emit:" + str(mc["violated"]), {"trace": tlc.counterexample(mc["out"])})
        cs = cases(tier, rng)
        obs = common.pool_map(observe, cs, initfn=common.import_repo)
        verdicts, st = tlc.validate(s, "Trace_Emit", obs, cfg="Trace_Emit.cfg", chunk=5000, extra_files=extra)
    tally = {}
    nontriv = 0
    for p, v, o in zip(cs, verdicts, obs):
        key = v if not v.startswith("violation:transpile") else v
        tally[key] = tally.get(key, 0) + 1
        head = v.split(":")[0]
        if head == "violation":
            V.add(signature(p.replace("\x00D", "[D]"), o.get("cerr", "")), {"program": p.replace("\x00D", "[flag D] "), "verdict": v, "compile_error": o.get("cerr", ""),
                                                     "replay": f"transpile({p!r})"})
        elif head in ("drift", "specviolation"):
            V.add_drift({"program": p, "verdict": v})
        if head != "skip":
            nontriv += 1
    rc = V.finish()
    common.write_evidence(
        PID, tier, t0,
        {
            "states": mc["distinct"], "transitions": mc["generated"], "traces_validated_against_impl": nontriv,
            "samples": [{"program": p, "verdict": v} for p, v in list(zip(cs, verdicts))[:: max(1, len(cs) // 14)][:14]],
            "evaluations": len(cs), "distinct_nontrivial": nontriv,
            "rule": "every string <= 4/5 symbols over the 21-symbol structural alphabet; every element key in "
                    f"{len(POSITIONS)} position classes; every modifier x 8 operand shapes x positions; random depth-4 "
                    "programs over all token kinds and all element keys; end-truncations; literals with Python-special "
                    "characters; non-trivial = distinct program text the specification finds well-formed",
            "verdicts": tally, "mc": {"module": "MC_Emit", "distinct": mc["distinct"], "invariant": "ValidPython"},
            "trace_tlc": {k: st[k] for k in st if k != "extra"}, "exhaustive": False,
        },
        ["well-formed = spec WellFormedToks (valid tokens, headers per Structures.md, modifiers with enough operands)",
         "element/modifier templates enter VyEmit as line-structure data extracted from the same working tree"],
        len(V.violations),
    )
    print(f"C02 {tier}: {len(cs)} programs, verdicts {tally}, MC {mc['distinct']} states, {time.time() - t0:.1f}s")
    return rc
