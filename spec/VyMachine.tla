---- MODULE VyMachine ----
(***************************************************************************)
(* Small-step semantics of Vyxal 2 programs as vyxal/main.py execute_vyxal *)
(* runs them (documents/specs/Structures.md, Transpilation.md, Input.md,   *)
(* Context.md, and the templates of vyxal/transpile.py).                   *)
(*                                                                         *)
(* The machine state is one record m:                                      *)
(*   ctl    control stack (head = next thing to do): tree nodes to run and *)
(*          continuation items (loop steppers, returns, collectors)        *)
(*   acts   activations, last = current; each owns an operand stack `stk`  *)
(*          (module / lambda / fn / item), its local variables             *)
(*   cvals  ctx.context_values      inps  ctx.inputs (<<vals, cursor>>)    *)
(*   fstk   ctx.function_stack      nstk  len(ctx.stacks)                  *)
(*   reg    register   garr global array   gv global variables             *)
(*   out    everything printed (code points)   printed  ctx.printed        *)
(*   rv     value returned by the call that just finished                  *)
(*   status "run" | "done" | "undefined" (left the modelled domain)        *)
(*          | "raise" (the program raises a Python exception)              *)
(*                                                                         *)
(* Step(m) is a FUNCTION: the machine is deterministic; the only           *)
(* non-determinism is the environment's choice of program, inputs, flags.  *)
(*                                                                         *)
(* Named deviations from the prose documents (the code is followed):       *)
(*   IfNoContext, LambdaArgsPoppedOrder, FunctionInputsReversed,           *)
(*   FunctionBodyParentIsCall (X is a no-op, x prints the stack, in a      *)
(*   named function), ModifierCapturesRest, LazyEagerly (lazily mapped     *)
(*   lambda bodies are evaluated at once; generators keep them pure).      *)
(***************************************************************************)
EXTENDS VyValues, VyElemNames

---------------------------------------------------------------------------
(* configuration from flags                                                *)

Cfg(flags) ==
    [rstart |-> IF "M" \in flags THEN 0 ELSE 1,
     rend |-> IF "m" \in flags THEN 0 ELSE 1,
     darity |-> 1,
     tflag |-> "t" \in flags,
     flags |-> flags]

NoFn == [none |-> TRUE]

(* cond: the Python variable `condition` of this scope -- ONE variable that every if statement and every while
   loop of the same scope assigns (ConditionVariableShared) *)
Act(stk, kind, lnames, self) == [stk |-> stk, kind |-> kind, loc |-> <<>>, lnames |-> lnames, self |-> self, cond |-> [i |-> 0]]
SetCond(m, v) == [m EXCEPT !.acts[Len(m.acts)].cond = v]

InitMachine(tree, inputs, flags) ==
    [ctl |-> [k \in 1..Len(tree) |-> [k |-> "node", n |-> tree[k]]],
     acts |-> <<Act(IF "H" \in flags THEN <<VI(100)>> ELSE <<>>, "module", {}, NoFn)>>,
     cvals |-> <<VI(0)>>,
     inps |-> <<[vals |-> inputs, cur |-> 0]>>,
     fstk |-> <<>>,
     nstk |-> 2,
     reg |-> VI(0),
     garr |-> <<>>,
     gv |-> <<>>,
     out |-> <<>>,
     printed |-> FALSE,
     rv |-> VI(0),
     heap |-> <<>>,            \* lazily produced lists whose items are not computed yet (DeferredMap)
     status |-> "run",
     why |-> "",
     cfg |-> Cfg(flags),
     steps |-> 0]

---------------------------------------------------------------------------
(* small helpers on the state                                              *)

Top(m) == m.acts[Len(m.acts)]
Stk(m) == Top(m).stk
SetStk(m, s) == [m EXCEPT !.acts[Len(m.acts)].stk = s]
Push(m, v) == SetStk(m, Append(Stk(m), v))
Last(s) == s[Len(s)]
Front(s) == SubSeq(s, 1, Len(s) - 1)
Halt(m, st, w) == [m EXCEPT !.status = st, !.why = w]
Undef(m, w) == Halt(m, "undefined", w)
Cont(m) == [m EXCEPT !.ctl = Tail(m.ctl)]          \* drop the item just executed
PushCtl(m, items) == [m EXCEPT !.ctl = items \o m.ctl]
Nodes(ns) == [k \in 1..Len(ns) |-> [k |-> "node", n |-> ns[k]]]

(* association lists for variables: <<<<name, value>>, ...>> *)
Lookup(al, x) == IF \E k \in 1..Len(al) : al[k][1] = x
                 THEN (CHOOSE k \in 1..Len(al) : al[k][1] = x) ELSE 0
Bind(al, x, v) == LET k == Lookup(al, x)
                  IN IF k = 0 THEN Append(al, <<x, v>>) ELSE [al EXCEPT ![k] = <<x, v>>]

---------------------------------------------------------------------------
(* input (C11): ctx.inputs is a stack of scopes <<vals, cursor>>           *)

(* get_input: the top scope, cyclically; an empty top-level scope gives 0  *)
(* (stdin at EOF), an empty inner scope gives 0 *)
ImplicitInput(m) ==
    LET sc == Last(m.inps)
    IN IF sc.vals # <<>>
       THEN <<sc.vals[(sc.cur % Len(sc.vals)) + 1],
              [m EXCEPT !.inps[Len(m.inps)].cur = sc.cur + 1]>>
       ELSE <<VI(0), m>>

(* the `?` element: always the program's inputs (scope 1) *)
ExplicitInput(m) ==
    LET sc == m.inps[1]
    IN IF sc.vals # <<>>
       THEN <<sc.vals[(sc.cur % Len(sc.vals)) + 1], [m EXCEPT !.inps[1].cur = sc.cur + 1]>>
       ELSE <<VI(0), m>>

(* pop(stack, 1): the top, or the next input when the stack is empty *)
Pop1(m) ==
    IF Stk(m) # <<>> THEN <<Last(Stk(m)), SetStk(m, Front(Stk(m)))>>
    ELSE ImplicitInput(m)

(* pop(stack, n): popped order (top first) *)
RECURSIVE PopN(_, _)
PopN(m, n) ==
    IF n = 0 THEN <<<<>>, m>>
    ELSE LET p == Pop1(m)
             r == PopN(p[2], n - 1)
         IN <<<<p[1]>> \o r[1], r[2]>>

---------------------------------------------------------------------------
(* variables                                                               *)

RECURSIVE Assigned(_)
RECURSIVE AssignedEach(_)
AssignedEach(bs) == IF bs = <<>> THEN {} ELSE Assigned(Head(bs)) \cup AssignedEach(Tail(bs))
AssignedNode(n) ==
    CASE n.t = "gen" -> IF n.tok.k = "variable_set" /\ n.tok.v # <<>> /\ n.tok.v[1] # c_under
                        THEN {n.tok.v} ELSE {}
      [] n.t = "if" -> AssignedEach(n.br)
      [] n.t = "for" -> (IF n.names # <<>> /\ n.names[1] # <<>> THEN {n.names[1]} ELSE {}) \cup Assigned(n.body)
      [] n.t = "while" -> Assigned(n.cond) \cup Assigned(n.body)
      [] n.t = "fndef" -> {n.name}
      [] OTHER -> {}        \* lambdas, list items and modifier operands are their own Python scopes
Assigned(ns) == IF ns = <<>> THEN {} ELSE AssignedNode(Head(ns)) \cup Assigned(Tail(ns))

IsGlobalName(x) == x = <<>> \/ x[1] = c_under
EnclosingLocal(m, x) == \E k \in 1..(Len(m.acts) - 1) : x \in m.acts[k].lnames

(* <<found?, value or undefined-marker>> *)
GetVar(m, x) ==
    IF ~IsGlobalName(x) /\ x \in Top(m).lnames
    THEN LET k == Lookup(Top(m).loc, x)
         IN IF k = 0 THEN UNDEF("unbound-local") ELSE Top(m).loc[k][2]
    ELSE IF ~IsGlobalName(x) /\ EnclosingLocal(m, x) THEN UNDEF("closure-variable")
    ELSE LET k == Lookup(m.gv, x)
         IN IF k = 0 THEN (IF x = <<>> THEN VI(0) ELSE UNDEF("name-error")) ELSE m.gv[k][2]

SetVar(m, x, v) ==
    IF ~IsGlobalName(x) /\ x \in Top(m).lnames
    THEN [m EXCEPT !.acts[Len(m.acts)].loc = Bind(@, x, v)]
    ELSE [m EXCEPT !.gv = Bind(@, x, v)]

---------------------------------------------------------------------------
(* function values                                                         *)

LamVal(body, arity, m) ==
    [f |-> [kind |-> "lam", body |-> body, sar |-> -1,
            ar |-> IF arity = DefaultArity THEN m.cfg.darity ELSE arity]]
FnVal(n) == [f |-> [kind |-> "fn", name |-> n.name, params |-> n.params, body |-> n.body]]

(* transpile.py lambda_wrap: the operand of a modifier as a function value *)
LambdaWrap(op, m) ==
    CASE op.t = "gen" ->
           IF op.tok.k \in {"number", "variable_get"} THEN LamVal(<<op>>, 0, m)
           ELSE IF op.tok.k = "general" /\ ElemName(op.tok.v) # "?"
                THEN LamVal(<<op>>, ElemArity(ElemName(op.tok.v)), m)
                ELSE UNDEF("modifier-operand")
      [] op.t = "lam" -> LamVal(op.body, op.arity, m)
      [] OTHER -> LamVal(<<op>>, 1, m)

CvalOf(args) == IF Len(args) = 1 THEN args[1] ELSE VL(args)

(* enter a lambda body with operand stack `args` *)
RECURSIVE ZIn(_)
ZIn(v) == IsZ(v) \/ (IsL(v) /\ \E k \in 1..Len(v.l) : ZIn(v.l[k]))
EnterLambda(m, fv, args, kont) ==
    IF \E k \in 1..Len(args) : ZIn(args[k]) THEN Undef(m, "lazy-value-as-argument") ELSE
    [m EXCEPT
       !.acts = Append(@, Act(args, "lambda", Assigned(fv.f.body), fv)),
       !.fstk = Append(@, fv),
       !.cvals = Append(@, CvalOf(args)),
       !.inps = Append(@, [vals |-> RevSeq(args), cur |-> 0]),
       !.nstk = @ + 1,
       !.ctl = Nodes(fv.f.body) \o <<[k |-> "ret"]>> \o kont \o m.ctl]

(* named function called by @f; : every parameter pops from the CALLER's     *)
(* stack (numeric k: k values into the function's stack, a name: one value   *)
(* into a local variable).  Returns <<m, parameters, locals, ok>>.           *)
RECURSIVE TakeParams(_, _, _, _)
TakeParams(m, params, acc, loc) ==
    IF params = <<>> THEN <<m, acc, loc, TRUE>>
    ELSE LET p == Head(params)
         IN IF p = <<c_star>> \/ p = <<>> THEN <<m, acc, loc, FALSE>>
            ELSE IF AllDigits(p)
                 THEN LET r == PopN(m, ToNat(p)) IN TakeParams(r[2], Tail(params), acc \o r[1], loc)
                 ELSE LET r == Pop1(m) IN TakeParams(r[2], Tail(params), acc, Bind(loc, p, r[1]))

ParamNames(params) == {params[k] : k \in {j \in 1..Len(params) : ~AllDigits(params[j])}}

EnterFunction(m, fv) ==
    LET t == TakeParams(m, fv.f.params, <<>>, <<>>)
        m1 == t[1]
        ps == t[2]
    IN IF ~t[4] THEN Undef(m, "star-parameter")
       ELSE [m1 EXCEPT
               !.acts = Append(@, [stk |-> ps, kind |-> "fn", loc |-> t[3], cond |-> [i |-> 0],
                                   lnames |-> Assigned(fv.f.body) \cup ParamNames(fv.f.params), self |-> fv]),
               !.cvals = Append(@, VL(ps)),
               !.inps = Append(@, [vals |-> RevSeq(ps), cur |-> 0]),       \* FunctionInputsReversed
               !.nstk = @ + 1,
               !.ctl = Nodes(fv.f.body) \o <<[k |-> "fnret"]>> \o m1.ctl]

(* call by † / ß / x: the arity is the stored arity, else the lambda's own;  *)
(* arguments are popped from the caller's stack (LambdaArgsPoppedOrder)      *)
CallFromStack(m, fv, kont) ==
    IF fv.f.kind = "fn" THEN Undef(m, "call-of-named-function-value")
    ELSE LET n == IF fv.f.sar # -1 THEN fv.f.sar ELSE fv.f.ar
             r == PopN(m, n)
         IN EnterLambda(r[2], fv, r[1], kont)

(* safe_apply(f, a1..ak): explicit arity k, the lambda's stack is <<a1..ak>> *)
Apply(m, fv, args, kont) ==
    IF fv.f.kind = "fn" THEN Undef(m, "apply-of-named-function-value")
    ELSE EnterLambda(m, fv, args, kont)

---------------------------------------------------------------------------
(* printing                                                                *)

VyPrint(m, v, end) ==
    IF ~Printable(v) THEN Undef(m, "print-of-function")
    ELSE [m EXCEPT !.out = @ \o Str(v) \o end, !.printed = TRUE]
NL == <<10>>

(* vy_print of any value: a FUNCTION is called on the current stack (its arity is popped from
   there) and its result printed -- always with a newline, whatever `end` was (PrintOfFunctionEndsLine);
   ctx.printed is set before the call.  `kont`: what the element does after printing. *)
(* PrintPopsRegisteredStack: the arguments come from ctx.stacks[-1]; a list item's own stack is
   not registered there, so inside an item they are popped from the enclosing activation's stack *)
RegisteredAct(m) == CHOOSE j \in 1..Len(m.acts) :
                        /\ m.acts[j].kind # "item"
                        /\ \A k \in (j + 1)..Len(m.acts) : m.acts[k].kind = "item"
Pop1At(m, j) ==
    IF m.acts[j].stk # <<>> THEN <<Last(m.acts[j].stk), [m EXCEPT !.acts[j].stk = Front(@)]>>
    ELSE ImplicitInput(m)
RECURSIVE PopNAt(_, _, _)
PopNAt(m, j, n) ==
    IF n = 0 THEN <<<<>>, m>>
    ELSE LET p == Pop1At(m, j)
             r == PopNAt(p[2], j, n - 1)
         IN <<<<p[1]>> \o r[1], r[2]>>
CallFromRegistered(m, fv, kont) ==
    IF fv.f.kind = "fn" THEN Undef(m, "call-of-named-function-value")
    ELSE LET n == IF fv.f.sar # -1 THEN fv.f.sar ELSE fv.f.ar
             r == PopNAt(m, RegisteredAct(m), n)
         IN EnterLambda(r[2], fv, r[1], kont)

ZOpen == <<10216, 32>>
ZClose == <<32, 10217>>
ZSep == <<32, 124, 32>>
RECURSIVE JoinSep(_)
JoinSep(vs) == IF vs = <<>> THEN <<>> ELSE IF Len(vs) = 1 THEN Str(vs[1]) ELSE Str(vs[1]) \o ZSep \o JoinSep(Tail(vs))
RECURSIVE ZJoinRepr(_)
ZJoinRepr(vs) == IF vs = <<>> THEN <<>> ELSE IF Len(vs) = 1 THEN Repr(vs[1]) ELSE Repr(vs[1]) \o ZSep \o ZJoinRepr(Tail(vs))

(* deep_copy of a lazy list is a NEW lazy list that reads through the original (CopyReadsThrough): whatever it
   pulls is produced -- once -- by the original and kept there; the copy keeps its own account of what it has
   pulled, which is what decides how its items are written *)
RECURSIVE RootOf(_, _)
RootOf(m, id) == IF m.heap[id].op = "copy" THEN RootOf(m, m.heap[id].src) ELSE id
RECURSIVE ChainOf(_, _)
ChainOf(m, id) == IF m.heap[id].op = "copy" THEN {id} \cup ChainOf(m, m.heap[id].src) ELSE {id}
(* a value with every cell that HAS been produced written as the list of its items *)
RECURSIVE Resolve(_, _)
Resolve(s, v) == IF IsZ(v) THEN LET c == s.heap[RootOf(s, v.z)]
                                IN IF c.state = "done" THEN VL([k \in 1..Len(c.acc) |-> Resolve(s, c.acc[k])]) ELSE v
                 ELSE IF IsL(v) THEN VL([k \in 1..Len(v.l) |-> Resolve(s, v.l[k])])
                 ELSE v
(* the references to cells in a value, in the order vy_str / vy_repr meets them *)
RECURSIVE ZRefs(_)
RECURSIVE ZRefsSeq(_)
ZRefsSeq(vs) == IF vs = <<>> THEN <<>> ELSE ZRefs(Head(vs)) \o ZRefsSeq(Tail(vs))
ZRefs(v) == IF IsZ(v) THEN <<v.z>> ELSE IF IsL(v) THEN ZRefsSeq(v.l) ELSE <<>>
ForceItems(ids) == [k \in 1..Len(ids) |-> [k |-> "zforce", id |-> ids[k]]]


(* LazyList.output: the items already produced are written, the others are produced one by one -- their
   bodies run NOW, in the state of now -- and written, all as vy_repr writes them (the implementation wrote
   the items produced earlier with vy_print, texts unquoted: a list printed twice read differently the second
   time -- genuine defect, repaired).  The item list is registered as a stack meanwhile. *)
PrintVal(m, v, end, kont) ==
    IF IsF(v) THEN CallFromRegistered([m EXCEPT !.printed = TRUE], v, <<[k |-> "k_print"]>> \o kont)
    ELSE IF IsZ(v)
    THEN LET c == m.heap[v.z]
             r == RootOf(m, v.z)
             rc == m.heap[r]
             items == Resolve(m, VL(rc.acc)).l      \* (items that are cells themselves: produced when this one was)
         IN IF rc.state = "busy" THEN Undef(m, "lazy-list-printed-while-it-is-produced")
            ELSE IF rc.state = "done" /\ ZIn(VL(items)) THEN Undef(m, "nested-cell-not-produced")
            ELSE IF c.state = "done"       \* this very object has pulled everything before
            THEN PushCtl([m EXCEPT !.out = @ \o ZOpen \o ZJoinRepr(items) \o ZClose \o end, !.printed = TRUE], kont)
            ELSE IF rc.state = "done"      \* a copy that has pulled nothing yet: the items are there, new to the copy
            THEN PushCtl([m EXCEPT !.out = @ \o ZOpen \o ZJoinRepr(items) \o ZClose \o end, !.printed = TRUE,
                                   !.heap = [k \in 1..Len(@) |-> IF k \in ChainOf(m, v.z) THEN [@[k] EXCEPT !.state = "done"] ELSE @[k]]],
                         kont)
            ELSE PushCtl([m EXCEPT !.out = @ \o ZOpen, !.printed = TRUE, !.nstk = @ + 1, !.heap[r].state = "busy"],
                         <<[rc EXCEPT !.k = IF rc.op = "zscan" THEN "zscan" ELSE "hof", !.zid = r, !.emit = TRUE, !.end = end,
                                      !.also = ChainOf(m, v.z)]>> \o kont)
    ELSE IF ZIn(v)      \* vy_print(list) = vy_print(vy_str(list)): the text is built first -- list(lazy) produces every
                        \* item of every cell met, their bodies run now -- and written afterwards
    THEN PushCtl([m EXCEPT !.printed = TRUE], <<[k |-> "k_render", v |-> v], [k |-> "k_printres", v |-> v, end |-> end]>> \o kont)
    ELSE IF ~Printable(v) THEN Undef(m, "print-of-function")
    ELSE PushCtl([m EXCEPT !.out = @ \o Str(v) \o end, !.printed = TRUE], kont)

(* sympy.ntheory.primefactors(int(n)): the DISTINCT primes of |n| (none for 0 and 1) *)
RECURSIVE StripF(_, _)
StripF(n, d) == IF n % d = 0 THEN StripF(n \div d, d) ELSE n
RECURSIVE DistinctPF(_, _)
DistinctPF(n, d) == IF n < 2 THEN 0
                    ELSE IF d * d > n THEN 1
                    ELSE IF n % d = 0 THEN 1 + DistinctPF(StripF(n, d), d + 1)
                    ELSE DistinctPF(n, d + 1)

---------------------------------------------------------------------------
(* iterables                                                               *)

(* iterable(x, range): a number n is range(rstart, n + rend), a list its items *)
IterRange(m, v) ==
    IF IsL(v) THEN v.l
    ELSE IF IsI(v) /\ v.i <= 200 THEN RangeSeq(m.cfg.rstart, v.i + m.cfg.rend - 1)
    ELSE <<UNDEF("iterable")>>
IterOK(m, v) == IsL(v) \/ (IsI(v) /\ v.i <= 200)

(* what a reduction / cumulative reduction walks over (helpers.iterable without a number type): the items of a  *)
(* list, the characters of a text, the decimal digits of a non-negative integer                                *)
FoldOK(v) == IsL(v) \/ IsS(v) \/ (IsI(v) /\ v.i >= 0)
FoldItems(v) ==
    IF IsL(v) THEN v.l
    ELSE IF IsS(v) THEN [k \in 1..Len(v.s) |-> VS(<<v.s[k]>>)]
    ELSE LET t == Str(v) IN [k \in 1..Len(t) |-> VI(t[k] - 48)]

---------------------------------------------------------------------------
(* elements                                                                *)

(* after popping: keep going with the result pushed, or stop as undefined *)
PushRes(m, v) ==
    LET c == Clean(v) IN IF IsU(c) THEN Undef(m, c.u) ELSE Push(m, c)

(* LazyEagerly: map / filter / scan results are lazy in the implementation, the model evaluates
   them at once; that is unobservable only for PURE bodies -- anything else is outside the model *)
ImpureElems == {"print", "printkeep", "printnonl", "input", "regget", "regset", "garrpush", "garrpop",
                "garrcopy", "call", "stacklen", "wrapstack", "revstack", "over"}
RECURSIVE PureNodes(_)
RECURSIVE PureEach(_)
PureEach(bs) == IF bs = <<>> THEN TRUE ELSE (PureNodes(Head(bs)) /\ PureEach(Tail(bs)))
PureNode(n) ==
    CASE n.t \in {"gen", "tok"} ->
           IF n.tok.k = "general" THEN ElemName(n.tok.v) \notin ImpureElems \cup {"?"}
           ELSE n.tok.k = "number"
      [] n.t = "if" -> PureEach(n.br)
      [] n.t = "for" -> n.names = <<>> /\ PureNodes(n.body)
      [] n.t \in {"lam", "lmap", "lfilter", "lsort"} -> PureNodes(n.body)
      [] n.t = "list" -> PureEach(n.br)
      [] n.t \in {"mon", "dy", "tri"} -> n.m # m_amp /\ PureNodes(n.ops)
      [] OTHER -> FALSE          \* break, recurse, while, function definitions and calls
PureNodes(ns) == IF ns = <<>> THEN TRUE ELSE (PureNode(Head(ns)) /\ PureNodes(Tail(ns)))
LazyOps == {"map", "filter", "scan"}

Hof(op, fn, items, pre, post) ==
    [k |-> "hof", op |-> op, fn |-> fn, rest |-> items, acc |-> <<>>, cur |-> VI(0), keys |-> <<>>,
     first |-> TRUE, pre |-> pre, post |-> post,
     lz |-> FALSE, zid |-> 0, emit |-> FALSE, end |-> <<>>, state |-> "none",      \* (a heap cell is such a record)
     src |-> 0, also |-> {}, ph |-> "s0", pend |-> VI(0)]
CopyCell(id) == [Hof("copy", NoFn, <<>>, <<>>, <<>>) EXCEPT !.lz = TRUE, !.state = "new", !.src = id]

(* M F ṡ R with one function argument: <<fn, other>> or none *)
FnAndOther(lhs, rhs) ==
    IF IsF(rhs) /\ ~IsF(lhs) THEN <<rhs, lhs, TRUE>>
    ELSE IF IsF(lhs) /\ ~IsF(rhs) THEN <<lhs, rhs, TRUE>>
    ELSE <<lhs, rhs, FALSE>>

Elem(m0, name) ==      \* m0: the element item already removed from ctl
    CASE name \in MonadKeys ->
           LET p == Pop1(m0) IN PushRes(p[2], Monad(name, p[1]))
      [] name = "boolify" ->
           LET p == Pop1(m0)
           IN IF IsL(p[1]) /\ m0.cfg.tflag
              THEN Push(p[2], VI(IF \E k \in 1..Len(p[1].l) : PyTruthy(p[1].l[k]) THEN 1 ELSE 0))
              ELSE IF IsF(p[1]) THEN Push(p[2], VI(1))
              ELSE IF IsS(p[1]) THEN Push(p[2], VI(IF p[1].s # <<>> THEN 1 ELSE 0))
              ELSE PushRes(p[2], Mo("bool", p[1]))
      \* a function times a number STORES that number as the function's arity (used by † ß x and printing;
      \* a call that passes its arguments explicitly -- map, filter, sort, reduce, modifiers -- ignores it)
      [] name = "mul" /\ LET p == PopN(m0, 2) IN (IsF(p[1][1]) /\ IsI(p[1][2])) \/ (IsF(p[1][2]) /\ IsI(p[1][1])) ->
           LET p == PopN(m0, 2)
               fv == IF IsF(p[1][1]) THEN p[1][1] ELSE p[1][2]
               n == IF IsF(p[1][1]) THEN p[1][2].i ELSE p[1][1].i
           IN IF fv.f.kind # "lam" \/ n < 0 \/ n > 6 THEN Undef(m0, "stored-arity-domain")
              ELSE Push(p[2], [f |-> [fv.f EXCEPT !.sar = n]])
      [] name \in DyadKeys ->
           LET p == PopN(m0, 2) IN PushRes(p[2], Dyad(name, p[1][2], p[1][1]))
      \* head / tail extract push TWO results
      [] name = "hext" -> LET p == Pop1(m0)
                          IN IF ~IsL(p[1]) THEN Undef(m0, "extract-of-scalar")
                             ELSE Push(PushRes(p[2], Monad("head", p[1])), Monad("hrem", p[1]))
      [] name = "text" -> LET p == Pop1(m0)
                          IN IF ~IsL(p[1]) THEN Undef(m0, "extract-of-scalar")
                             ELSE Push(PushRes(p[2], Monad("trem", p[1])), Monad("tail", p[1]))
      \* over: the entry under the top once more; with fewer than two entries it READS an input (implicitly)
      [] name = "over" -> IF Len(Stk(m0)) > 1 THEN Push(m0, Stk(m0)[Len(Stk(m0)) - 1])
                          ELSE LET r == ImplicitInput(m0) IN Push(r[2], r[1])
      [] name = "dup" -> LET p == Pop1(m0)
                         IN IF IsZ(p[1])
                            THEN \* stack.append(deep_copy(top)); stack.append(top): the copy lies BELOW the original
                                 Push(Push([p[2] EXCEPT !.heap = Append(@, CopyCell(p[1].z))], VZ(Len(m0.heap) + 1)), p[1])
                            ELSE Push(Push(p[2], p[1]), p[1])
      [] name = "trip" -> LET p == Pop1(m0) IN Push(Push(Push(p[2], p[1]), p[1]), p[1])
      [] name = "pop" -> Pop1(m0)[2]
      [] name = "swap" -> LET p == PopN(m0, 2) IN Push(Push(p[2], p[1][1]), p[1][2])
      [] name = "wrapstack" -> SetStk(m0, <<VL(Stk(m0))>>)
      [] name = "stacklen" -> Push(m0, VI(Len(Stk(m0))))
      [] name = "revstack" -> SetStk(m0, RevSeq(Stk(m0)))
      [] name = "ctxvar" -> Push(m0, Last(m0.cvals))
      [] name = "input" -> LET r == ExplicitInput(m0) IN Push(r[2], r[1])
      [] name = "regget" -> Push(m0, m0.reg)
      [] name = "regset" -> LET p == Pop1(m0) IN [p[2] EXCEPT !.reg = p[1]]
      [] name = "garrcopy" -> Push(m0, VL(m0.garr))
      [] name = "garrpush" -> LET p == Pop1(m0) IN [p[2] EXCEPT !.garr = Append(@, p[1])]
      [] name = "garrpop" ->
           IF m0.garr = <<>> THEN Halt(m0, "raise", "IndexError")
           ELSE Push([m0 EXCEPT !.garr = Front(@)], Last(m0.garr))
      [] name = "neg1" -> Push(m0, VI(-1))
      [] name = "ten" -> Push(m0, VI(10))
      [] name = "hundred" -> Push(m0, VI(100))
      [] name = "print" -> LET p == Pop1(m0) IN PrintVal(p[2], p[1], NL, <<>>)
      [] name = "printnonl" -> LET p == Pop1(m0) IN PrintVal(p[2], p[1], <<>>, <<>>)
      [] name = "printkeep" -> LET p == Pop1(m0) IN PrintVal(p[2], p[1], NL, <<[k |-> "k_pushv", v |-> p[1]]>>)
      [] name = "call" ->
           LET p == Pop1(m0)
           IN IF IsF(p[1]) THEN CallFromStack(p[2], p[1], <<[k |-> "k_push"]>>)
              ELSE IF IsL(p[1]) THEN PushRes(p[2], Mo("not", p[1]))
              ELSE IF IsS(p[1]) THEN Undef(m0, "call-of-string")
              ELSE IF IsI(p[1]) /\ Abs(p[1].i) <= 1000000 THEN Push(p[2], VI(DistinctPF(Abs(p[1].i), 2)))
              ELSE Undef(m0, "call-of-big-number")
      [] name = "reduce" /\ ~(Len(Stk(m0)) > 1 /\ (IsF(Last(Stk(m0))) \/ IsF(Stk(m0)[Len(Stk(m0)) - 1]))) ->
           Undef(m0, "R-as-vectorised-reverse")
      [] name \in {"map", "filter", "sortby", "reduce"} ->
           LET p == PopN(m0, 2)
               fo == FnAndOther(p[1][2], p[1][1])
               m1 == p[2]
           IN IF ~fo[3] THEN Undef(m0, "higher-order-without-function")
              ELSE IF name = "reduce" /\ ~FoldOK(fo[2]) THEN Undef(m0, "reduce-of-negative-number")
              ELSE IF name = "sortby" /\ ~IsL(fo[2]) THEN Undef(m0, "sort-of-scalar")
              ELSE IF name \in {"map", "filter"} /\ ~IterOK(m1, fo[2]) THEN Undef(m0, "iterable")
              ELSE LET items == IF name \in {"map", "filter"} THEN IterRange(m1, fo[2])
                                ELSE IF name = "reduce" THEN FoldItems(fo[2]) ELSE fo[2].l
                   IN PushCtl(m1, <<Hof(IF name = "reduce" THEN "fold" ELSE name, fo[1], items, <<>>, <<>>)>>)
      [] OTHER -> Undef(m0, "element-outside-core")


---------------------------------------------------------------------------
(* higher-order iteration: item "hof" dispatches the next call, "hofk"     *)
(* receives its result in m.rv.  pre/post: fixed arguments around the item *)

SortByKeys(items, keys) ==
    LET r == SortKeyed([k \in 1..Len(items) |-> [v |-> items[k], key |-> keys[k].i]])
    IN [k \in 1..Len(items) |-> r[k].v]

HofStep(m0, h) ==      \* h is the "hof" item (already removed from ctl)
    IF h.op \in LazyOps /\ h.acc = <<>> /\ h.first /\ ~h.lz /\ ~PureNodes(h.fn.f.body)
    THEN \* DeferredMap: nothing is computed now; the value is a reference to a new heap cell.  (The model resolves
         \* variables along the activations that are live when the body runs, the implementation along the scopes the
         \* lambda was written in: cells are only made where no live activation has variables of its own.)
         IF h.op \in {"map", "filter"} /\ \A k \in 1..Len(m0.acts) : m0.acts[k].lnames = {}
         THEN Push([m0 EXCEPT !.heap = Append(@, [h EXCEPT !.lz = TRUE, !.state = "new"])], VZ(Len(m0.heap) + 1))
         ELSE Undef(m0, "impure-lazy-lambda")
    ELSE IF h.rest = <<>>
    THEN CASE h.lz ->      \* LazyList.output: the source is exhausted -- close the bracket, unregister the item list
                [m0 EXCEPT !.heap = [k \in 1..Len(@) |-> IF k = h.zid THEN [@[k] EXCEPT !.state = "done", !.acc = h.acc]
                                                          ELSE IF k \in h.also THEN [@[k] EXCEPT !.state = "done"] ELSE @[k]],
                           !.out = IF h.emit THEN @ \o ZClose \o h.end ELSE @,
                           !.nstk = IF h.emit THEN @ - 1 ELSE @]
           [] h.op \in {"map", "filter", "scan"} -> Push(m0, VL(h.acc))
           [] h.op = "sortby" ->
                IF AllInts(h.keys) THEN Push(m0, VL(SortByKeys(h.acc, h.keys)))
                ELSE Undef(m0, "sort-keys-not-integers")
           [] h.op = "fold" -> Push(m0, IF h.first THEN VI(0) ELSE h.cur)
           [] OTHER -> Undef(m0, "hof")
    ELSE LET x == Head(h.rest)
             h2 == [h EXCEPT !.rest = Tail(h.rest), !.k = "hofk"]
         IN IF IsU(x) THEN Undef(m0, "iterable")
            ELSE IF h.op \in {"fold", "scan"} /\ h.first
            THEN PushCtl(m0, <<[h EXCEPT !.rest = Tail(h.rest), !.first = FALSE, !.cur = x,
                                         !.acc = IF h.op = "scan" THEN <<x>> ELSE <<>>]>>)
            ELSE IF h.op \in {"fold", "scan"}
            THEN Apply(m0, h.fn, <<h.cur, x>>, <<h2>>)
            ELSE Apply(m0, h.fn, h.pre \o <<x>> \o h.post, <<[h2 EXCEPT !.cur = x]>>)

HofK(m0, h) ==         \* the call returned m0.rv
    LET r == m0.rv
        back == [h EXCEPT !.k = "hof"]
        \* LazyList.output: each new item is written as it arrives -- after whatever its body printed --, the
        \* separator after the NEXT item has been produced and before it is written
        item == IF h.op = "map" THEN r ELSE h.cur
        got == h.op = "map" \/ PyTruthy(r)
        nested == h.lz /\ got /\ ZIn(item)          \* an item that is (or holds) a lazily produced list itself
        m1 == IF h.lz /\ h.emit /\ got
              THEN [m0 EXCEPT !.out = @ \o (IF h.acc # <<>> THEN ZSep ELSE <<>>) \o (IF nested THEN <<>> ELSE Repr(item))]
              ELSE m0
    IN IF h.op = "filter" /\ ZIn(r) THEN Undef(m0, "truth-of-lazy-value")      \* (bool of a lazy list produces its first item)
       ELSE IF h.lz /\ got /\ ~nested /\ ~Printable(item) THEN Undef(m0, "lazy-item-not-plain")
       ELSE IF nested /\ h.emit
       THEN \* LazyList.output writes such an item with vy_print(item, "") -- its own bracket, its items as they are produced
            PrintVal(m1, item, <<>>, <<[back EXCEPT !.acc = Append(h.acc, item)]>>)
       ELSE
       CASE h.op = "map" -> PushCtl(m1, <<[back EXCEPT !.acc = Append(h.acc, r)]>>)
         [] h.op = "filter" ->
              PushCtl(m1, <<[back EXCEPT !.acc = IF PyTruthy(r) THEN Append(h.acc, h.cur) ELSE h.acc]>>)
         [] h.op = "sortby" ->
              PushCtl(m0, <<[back EXCEPT !.acc = Append(h.acc, h.cur), !.keys = Append(h.keys, r)]>>)
         [] h.op = "fold" -> PushCtl(m0, <<[back EXCEPT !.cur = r]>>)
         [] h.op = "scan" -> PushCtl(m0, <<[back EXCEPT !.cur = r, !.acc = Append(h.acc, r)]>>)
         [] OTHER -> Undef(m0, "hofk")

(* helpers.scanl over a lazily produced list, as the generator runs: it takes the first item, and from then on
   ALWAYS HOLDS THE NEXT SOURCE ITEM before it hands out a value (`for item in vector: ... yield working;
   working = f(working, item)`): the source is one item ahead of what has been handed out, and f runs when the
   consumer comes back for more.  Phases: s0 start, s1k first item arrived, s2 look for the next source item,
   s2k it arrived (hand out the running value), s3 / s3k combine. *)
ZScanStep(m0, h) ==
    LET s == m0.heap[h.src]
        Pull(ph) == Apply([m0 EXCEPT !.heap[h.src].rest = Tail(s.rest)], s.fn, s.pre \o <<Head(s.rest)>> \o s.post,
                          <<[h EXCEPT !.ph = ph]>>)
        Got == [m0 EXCEPT !.heap[h.src].acc = Append(@, m0.rv)]              \* the source keeps what it produced
        Yield(mm, hh) ==      \* hand out hh.cur: the consumer writes it (emit) and asks again
            IF ~Printable(hh.cur) THEN Undef(mm, "lazy-item-not-plain")
            ELSE [mm EXCEPT !.out = IF hh.emit THEN @ \o (IF hh.acc # <<>> THEN ZSep ELSE <<>>) \o Repr(hh.cur) ELSE @]
        Done(mm, hh) ==
            [mm EXCEPT !.heap = [k \in 1..Len(@) |-> IF k = hh.zid THEN [@[k] EXCEPT !.state = "done", !.acc = hh.acc]
                                                      ELSE IF k = hh.src \/ k \in hh.also THEN [@[k] EXCEPT !.state = "done"] ELSE @[k]],
                       !.out = IF hh.emit THEN @ \o ZClose \o hh.end ELSE @,
                       !.nstk = IF hh.emit THEN @ - 1 ELSE @]
    IN CASE h.ph = "s0" ->
              IF s.state # "new" \/ s.acc # <<>> THEN Undef(m0, "scan-source-already-produced")
              ELSE IF s.rest = <<>> THEN Done(m0, h)
              ELSE LET mb == [m0 EXCEPT !.heap[h.src].state = "busy"]
                   IN Apply([mb EXCEPT !.heap[h.src].rest = Tail(s.rest)], s.fn, s.pre \o <<Head(s.rest)>> \o s.post,
                            <<[h EXCEPT !.ph = "s1k"]>>)
         [] h.ph = "s1k" -> PushCtl(Got, <<[h EXCEPT !.ph = "s2", !.cur = m0.rv]>>)
         [] h.ph = "s2" ->
              IF s.rest = <<>>
              THEN LET y == Yield(m0, h) IN IF y.status # "run" THEN y ELSE Done(y, [h EXCEPT !.acc = Append(h.acc, h.cur)])
              ELSE Pull("s2k")
         [] h.ph = "s2k" ->
              LET y == Yield(Got, h)
              IN IF y.status # "run" THEN y
                 ELSE PushCtl(y, <<[h EXCEPT !.ph = "s3", !.pend = m0.rv, !.acc = Append(h.acc, h.cur)]>>)
         [] h.ph = "s3" -> Apply(m0, h.fn, <<h.cur, h.pend>>, <<[h EXCEPT !.ph = "s3k"]>>)
         [] h.ph = "s3k" -> PushCtl(m0, <<[h EXCEPT !.ph = "s2", !.cur = m0.rv]>>)
         [] OTHER -> Undef(m0, "zscan")

(* a fixed sequence of calls whose results are pushed (one by one or as a list) *)
MultiStep(m0, it) ==
    IF it.calls = <<>>
    THEN IF it.fin = "list" THEN Push(m0, VL(it.res))
         ELSE SetStk(m0, Stk(m0) \o it.res)
    ELSE Apply(m0, Head(it.calls).fn, Head(it.calls).args,
               <<[it EXCEPT !.k = "multik", !.calls = Tail(it.calls)]>>)
MultiK(m0, it) == PushCtl(m0, <<[it EXCEPT !.k = "multi", !.res = Append(it.res, m0.rv)]>>)

---------------------------------------------------------------------------
(* leaving loops and functions early                                       *)

RECURSIVE DropThrough(_, _)
DropThrough(ctl, kinds) ==      \* discard items up to and including the first of `kinds`
    IF ctl = <<>> THEN <<>>
    ELSE IF Head(ctl).k \in kinds THEN Tail(ctl) ELSE DropThrough(Tail(ctl), kinds)
RECURSIVE DropUntil(_, _)
DropUntil(ctl, kinds) ==        \* discard items up to (keeping) the first of `kinds`
    IF ctl = <<>> THEN <<>>
    ELSE IF Head(ctl).k \in kinds THEN ctl ELSE DropUntil(Tail(ctl), kinds)

LoopItems == {"for", "whiletest"}
InLoop(m) == \E k \in 1..Len(m.ctl) : m.ctl[k].k \in LoopItems

LeaveLambda(m0, res) ==         \* pops the four bookkeeping entries and the activation
    [m0 EXCEPT !.rv = res,
               !.cvals = Front(@), !.inps = Front(@), !.fstk = Front(@), !.nstk = @ - 1,
               !.acts = Front(@)]

BreakStep(m0, parent) ==
    CASE parent \in {"for", "while"} ->
           IF Top(m0).kind = "item" \/ ~InLoop(m0) THEN Undef(m0, "break-outside-loop-body")
           ELSE [m0 EXCEPT !.ctl = DropThrough(m0.ctl, LoopItems), !.cvals = Front(@)]
      [] parent = "lam" ->
           IF Top(m0).kind # "lambda" THEN Undef(m0, "break-in-item")
           ELSE LET p == Pop1(m0)
                IN LeaveLambda([p[2] EXCEPT !.ctl = DropThrough(p[2].ctl, {"ret"})], p[1])
      [] OTHER -> m0

RecurseStep(m0, parent) ==
    CASE parent \in {"for", "while"} ->
           IF Top(m0).kind = "item" \/ ~InLoop(m0) THEN Undef(m0, "continue-outside-loop-body")
           ELSE LET rest == DropUntil(m0.ctl, {"popcv"})
                    loop == DropUntil(rest, LoopItems)
                IN IF loop # <<>> /\ Head(loop).k = "whiletest"
                   \* Python `continue` in the while template jumps to the loop test WITHOUT re-running the
                   \* condition code (WhileContinueKeepsCondition): the test reads the scope's variable `condition`,
                   \* which is whatever the last if statement or while loop of this scope assigned
                   \* (ConditionVariableShared) -- the x template has already popped the context value
                   THEN LET c == Top(m0).cond
                        IN IF CondTrue(c, m0.cfg.tflag)
                           THEN [m0 EXCEPT !.cvals = Append(Front(@), c), !.ctl = Nodes(Head(loop).body) \o rest]
                           ELSE [m0 EXCEPT !.cvals = Front(@), !.ctl = Tail(loop)]
                   ELSE [m0 EXCEPT !.ctl = rest]
      [] parent = "lam" ->
           IF Top(m0).kind # "lambda" THEN Undef(m0, "recurse-in-item")
           ELSE CallFromStack(m0, Top(m0).self, <<[k |-> "k_push"]>>)
      [] parent = "if" -> m0
      [] parent \in {"mon", "dy", "tri"} -> Undef(m0, "recurse-in-modifier")
      [] OTHER -> VyPrint(m0, VL(Stk(m0)), NL)

---------------------------------------------------------------------------
(* modifiers                                                               *)

Call1(fn, args) == [fn |-> fn, args |-> args]

ModStep(m0, n) ==
    LET fA == LambdaWrap(n.ops[1], m0)
        fB == IF Len(n.ops) >= 2 THEN LambdaWrap(n.ops[2], m0) ELSE fA
        c == n.m
    IN IF IsU(fA) \/ IsU(fB) THEN Undef(m0, "modifier-operand")
       ELSE CASE c = m_amp ->
              LET m1 == Push(m0, m0.reg)
                  r == PopN(m1, fA.f.ar)
                  arg == IF fA.f.ar = 1 THEN r[1][1] ELSE VL(r[1])
              IN Apply(r[2], fA, <<arg>>, <<[k |-> "k_setreg"]>>)
         [] c = m_v ->
              LET r == PopN(m0, fA.f.ar)
                  a == RevSeq(r[1])          \* (lhs, rhs, other): deepest first
              IN CASE fA.f.ar = 1 ->
                        IF IterOK(r[2], a[1]) THEN PushCtl(r[2], <<Hof("map", fA, IterRange(r[2], a[1]), <<>>, <<>>)>>)
                        ELSE Undef(m0, "iterable")
                   [] fA.f.ar = 2 ->
                        IF IsL(a[1]) THEN PushCtl(r[2], <<Hof("map", fA, a[1].l, <<>>, <<a[2]>>)>>)
                        ELSE IF IsL(a[2]) /\ ~IsF(a[1]) THEN PushCtl(r[2], <<Hof("map", fA, a[2].l, <<a[1]>>, <<>>)>>)
                        ELSE Undef(m0, "v-scalar-scalar")
                   [] fA.f.ar = 3 ->
                        IF IsL(a[1]) THEN PushCtl(r[2], <<Hof("map", fA, a[1].l, <<>>, <<a[2], a[3]>>)>>)
                        ELSE Undef(m0, "v-triadic-scalar")
                   [] OTHER -> Undef(m0, "v-niladic")
         [] c = m_tilde ->
              IF fA.f.ar >= 2
              THEN LET r == PopN(m0, fA.f.ar)
                       m1 == SetStk(r[2], Stk(r[2]) \o RevSeq(r[1]))      \* retain_popped
                   IN Apply(m1, fA, RevSeq(r[1]), <<[k |-> "k_push"]>>)
              ELSE IF fA.f.ar = 1
              THEN LET p == Pop1(m0)
                   IN IF IterOK(p[2], p[1]) THEN PushCtl(p[2], <<Hof("filter", fA, IterRange(p[2], p[1]), <<>>, <<>>)>>)
                      ELSE Undef(m0, "iterable")
              ELSE m0
         [] c \in {m_para, m_paral} ->
              LET rA == PopN(m0, fA.f.ar)
                  mA == SetStk(rA[2], Stk(m0))              \* arguments_A come from a COPY of the stack
                  rB == PopN(mA, fB.f.ar)
              IN PushCtl(rB[2], <<[k |-> "multi", res |-> <<>>, fin |-> IF c = m_para THEN "each" ELSE "list",
                                   calls |-> <<Call1(fA, RevSeq(rA[1])), Call1(fB, RevSeq(rB[1]))>>]>>)
         [] c \in {m_fhook, m_dtail} ->
              LET p == Pop1(m0)
              IN IF c = m_dtail /\ IsZ(p[1])
                 THEN \* a cumulative reduction OF a lazily produced list: a second stage that pulls the first one item by item
                      LET sc == p[2].heap[p[1].z]
                      IN IF sc.op = "map" /\ sc.state = "new" /\ sc.acc = <<>>
                         THEN Push([p[2] EXCEPT !.heap = Append(@, [Hof("zscan", fA, <<>>, <<>>, <<>>) EXCEPT
                                                                      !.lz = TRUE, !.state = "new", !.src = p[1].z])],
                                   VZ(Len(p[2].heap) + 1))
                         ELSE Undef(m0, "scan-of-lazy-value")
                 ELSE IF ~FoldOK(p[1]) THEN Undef(m0, "reduce-of-negative-number")
                 ELSE PushCtl(p[2], <<Hof(IF c = m_fhook THEN "fold" ELSE "scan", fA, FoldItems(p[1]), <<>>, <<>>)>>)
         [] c = m_sz ->
              LET p == Pop1(m0)
              IN IF CondTrue(p[1], m0.cfg.tflag) THEN CallFromStack(p[2], fA, <<[k |-> "k_push"]>>) ELSE p[2]
         [] OTHER -> Undef(m0, "modifier")

---------------------------------------------------------------------------
(* one tree node                                                           *)

IfRun(m0, br, i) ==         \* the condition for body br[i] has just been popped: `c`
    m0

PlainText(s) == \A k \in 1..Len(s) : s[k] \in (32..126) \ {92, 96}

NodeStep(m0, n) ==
    CASE n.t \in {"gen", "tok"} ->
           CASE n.tok.k = "number" ->
                  IF AllDigits(n.tok.v) /\ Len(n.tok.v) <= 8 THEN Push(m0, VI(ToNat(n.tok.v)))
                  ELSE Undef(m0, "non-integer-literal")
             \* a back-quoted or two-character string of plain ASCII (nothing dictionary compression or the
             \* Python literal escaping would rewrite) denotes its text; an escaped character likewise
             [] n.tok.k = "string" -> IF PlainText(n.tok.v) THEN Push(m0, VS(n.tok.v)) ELSE Undef(m0, "string-outside-core")
             [] n.tok.k = "character" -> IF \A k \in 1..Len(n.tok.v) : n.tok.v[k] \in 32..126
                                         THEN Push(m0, VS(n.tok.v)) ELSE Undef(m0, "string-outside-core")
             [] n.tok.k = "general" -> Elem(m0, ElemName(n.tok.v))
             [] n.tok.k = "variable_get" ->
                  LET v == GetVar(m0, n.tok.v)
                  IN IF IsU(v) THEN (IF v.u = "name-error" THEN Halt(m0, "raise", "NameError") ELSE Undef(m0, v.u))
                     ELSE Push(m0, v)
             [] n.tok.k = "variable_set" -> LET p == Pop1(m0) IN SetVar(p[2], n.tok.v, p[1])
             [] OTHER -> Undef(m0, "literal-kind-outside-core")
      [] n.t = "break" -> BreakStep(m0, n.parent)
      [] n.t = "recurse" -> RecurseStep(m0, n.parent)
      [] n.t = "if" ->
           LET p == Pop1(m0)
           IN PushCtl(SetCond(p[2], p[1]), <<[k |-> "ifsel", br |-> n.br, i |-> 1, c |-> p[1]]>>)       \* IfNoContext
      [] n.t = "for" ->
           LET p == Pop1(m0)
           IN IF ~IterOK(p[2], p[1]) /\ ~IsS(p[1]) THEN Undef(m0, "iterable")
              ELSE PushCtl(p[2], <<[k |-> "for", named |-> n.names # <<>>,
                                    var |-> IF n.names # <<>> THEN n.names[1] ELSE <<>>,
                                    \* a for loop over a string visits its characters
                                    rest |-> IF IsS(p[1]) THEN [k \in 1..Len(p[1].s) |-> VS(<<p[1].s[k]>>)]
                                             ELSE IterRange(p[2], p[1]),
                                    body |-> n.body]>>)
      [] n.t = "while" -> PushCtl(m0, Nodes(n.cond) \o <<[k |-> "whiletest", cond |-> n.cond, body |-> n.body]>>)
      [] n.t = "fndef" ->
           IF Top(m0).kind # "module" THEN Undef(m0, "nested-function-definition")
           ELSE SetVar(m0, n.name, FnVal(n))
      [] n.t = "fncall" ->
           LET v == GetVar(m0, n.name)
           IN IF IsU(v) THEN (IF v.u = "name-error" THEN Halt(m0, "raise", "NameError") ELSE Undef(m0, v.u))
              ELSE IF IsF(v) /\ v.f.kind = "fn" THEN EnterFunction(m0, v)
              ELSE Undef(m0, "call-of-non-function")
      [] n.t = "lam" -> Push(m0, LamVal(n.body, n.arity, m0))
      [] n.t \in {"lmap", "lfilter", "lsort"} ->
           PushCtl(Push(m0, LamVal(n.body, 1, m0)),
                   <<[k |-> "elem", name |-> CASE n.t = "lmap" -> "map" [] n.t = "lfilter" -> "filter"
                                               [] OTHER -> "sortby"]>>)
      [] n.t = "list" -> PushCtl(m0, <<[k |-> "list", rest |-> n.br, acc |-> <<>>]>>)
      [] n.t \in {"mon", "dy", "tri"} -> ModStep(m0, n)
      [] OTHER -> Undef(m0, "node-kind")

---------------------------------------------------------------------------
(* continuation items                                                      *)

(* a reference to a lazily produced list may be moved, copied (the copy reads through the original: the
   same cell), dropped and printed; anything else that could look into it is outside the model *)
HasZ(m) == \E k \in 1..Len(Stk(m)) : ZIn(Stk(m)[k])
ZSafeElems == {"pop", "dup", "swap", "print", "printkeep", "printnonl", "wrap", "wrapstack", "stacklen", "pair"}
(* The frame rule (MC_Machine.FrameRule, C09) says a plain element of table arity k leaves everything below the
   top k entries alone: a reference below them does not matter to it. *)
TopHasZ(m, k) == \E j \in 1..Len(Stk(m)) : j > Len(Stk(m)) - k /\ ZIn(Stk(m)[j])
ElemZSafe(m, name) ==
    \* (the copy of a LIST is a lazy list over the same items: written item by item, not as the text of a list -- a list
    \*  that holds a reference is not copied in the model)
    \/ name \in ZSafeElems /\ ~(name = "dup" /\ Stk(m) # <<>> /\ IsL(Last(Stk(m))) /\ ZIn(Last(Stk(m))))
    \/ name \notin {"call", "revstack", "over", "garrcopy"} /\ ~TopHasZ(m, ElemArity(name))
ZSafeItem(m, it) ==
    CASE it.k = "elem" -> ElemZSafe(m, it.name)
      [] it.k = "node" ->
           CASE it.n.t \in {"lam", "lmap", "lfilter", "lsort", "while"} -> TRUE      \* (push a function / run the condition first)
             [] it.n.t \in {"gen", "tok"} ->
                  CASE it.n.tok.k \in {"number", "string", "character", "variable_get"} -> TRUE
                    [] it.n.tok.k = "general" -> ElemZSafe(m, ElemName(it.n.tok.v))
                    [] it.n.tok.k = "variable_set" -> ~TopHasZ(m, 1)
                    [] OTHER -> FALSE
             [] it.n.t \in {"if", "for"} -> ~TopHasZ(m, 1)
             [] it.n.t = "mon" /\ it.n.m = m_dtail /\ it.n.ops # <<>> ->        \* a scan of the reference on top (only of it)
                  Stk(m) # <<>> /\ IsZ(Last(Stk(m)))
             [] OTHER -> FALSE           \* modifiers, function calls and definitions, list literals, X / x
      [] it.k \in {"iftest", "whiletest"} -> ~TopHasZ(m, 1)
      [] OTHER -> TRUE

ItemStep(m0, it) ==
    IF HasZ(m0) /\ ~ZSafeItem(m0, it) THEN Undef(m0, "lazy-value-on-stack") ELSE
    CASE it.k = "node" -> NodeStep(m0, it.n)
      [] it.k = "elem" -> Elem(m0, it.name)
      [] it.k = "popcv" -> [m0 EXCEPT !.cvals = Front(@)]
      [] it.k = "ifsel" ->
           IF CondTrue(it.c, m0.cfg.tflag) THEN PushCtl(m0, Nodes(it.br[it.i]))
           ELSE LET left == Len(it.br) - it.i
                IN IF left = 0 THEN m0
                   ELSE IF left = 1 THEN PushCtl(m0, Nodes(it.br[it.i + 1]))
                   ELSE PushCtl(m0, Nodes(it.br[it.i + 1]) \o <<[k |-> "iftest", br |-> it.br, i |-> it.i + 2]>>)
      [] it.k = "iftest" ->
           LET p == Pop1(m0) IN PushCtl(SetCond(p[2], p[1]), <<[k |-> "ifsel", br |-> it.br, i |-> it.i, c |-> p[1]]>>)
      [] it.k = "for" ->
           IF it.rest = <<>> THEN m0
           ELSE LET x == Head(it.rest)
                    m1 == IF it.named THEN SetVar(m0, it.var, x) ELSE m0
                IN IF IsU(x) THEN Undef(m0, "iterable")
                   ELSE [m1 EXCEPT !.cvals = Append(@, x),
                                   !.ctl = Nodes(it.body) \o <<[k |-> "popcv"], [it EXCEPT !.rest = Tail(it.rest)]>> \o @]
      [] it.k = "whiletest" ->
           LET p == Pop1(m0)
               q == SetCond(p[2], p[1])
           IN IF CondTrue(p[1], m0.cfg.tflag)
              THEN [q EXCEPT !.cvals = Append(@, p[1]),
                             !.ctl = Nodes(it.body) \o <<[k |-> "popcv"]>> \o Nodes(it.cond) \o <<it>> \o @]
              ELSE q
      [] it.k = "ret" -> LET p == Pop1(m0) IN LeaveLambda(p[2], p[1])
      [] it.k = "fnret" ->
           LET res == Stk(m0)
               m1 == [m0 EXCEPT !.cvals = Front(@), !.inps = Front(@), !.nstk = @ - 1, !.acts = Front(@)]
           IN SetStk(m1, Stk(m1) \o res)
      [] it.k = "k_push" -> Push(m0, m0.rv)
      [] it.k = "k_pushv" -> Push(m0, it.v)
      [] it.k = "k_print" -> PrintVal(m0, m0.rv, NL, <<>>)
      [] it.k = "k_done" -> [m0 EXCEPT !.status = "done"]
      [] it.k = "k_printres" ->
           LET r == Resolve(m0, it.v)
           IN IF ~Printable(r) THEN Undef(m0, "print-of-function") ELSE [m0 EXCEPT !.out = @ \o Str(r) \o it.end]
      [] it.k = "k_render" ->     \* vy_repr walks the value: list(lazy) produces a cell completely, THEN its items are walked in order
           LET v == it.v
           IN IF IsZ(v)
              THEN IF m0.heap[RootOf(m0, v.z)].state = "done"
                   THEN PushCtl(m0, <<[k |-> "zforce", id |-> v.z]>>
                                    \o [j \in 1..Len(m0.heap[RootOf(m0, v.z)].acc) |-> [k |-> "k_render", v |-> m0.heap[RootOf(m0, v.z)].acc[j]]])
                   ELSE PushCtl(m0, <<[k |-> "zforce", id |-> v.z], it>>)
              ELSE IF IsL(v) THEN PushCtl(m0, [j \in 1..Len(v.l) |-> [k |-> "k_render", v |-> v.l[j]]])
              ELSE m0
      [] it.k = "zforce" ->      \* list(lazy): everything is produced (through the original, for a copy); nothing is written
           LET r == RootOf(m0, it.id)
               rc == m0.heap[r]
               chain == ChainOf(m0, it.id)
           IN IF rc.state = "busy" THEN Undef(m0, "lazy-list-forced-while-it-is-produced")
              ELSE IF rc.state = "done"
              THEN [m0 EXCEPT !.heap = [k \in 1..Len(@) |-> IF k \in chain THEN [@[k] EXCEPT !.state = "done"] ELSE @[k]]]
              ELSE PushCtl([m0 EXCEPT !.heap[r].state = "busy"],
                           <<[rc EXCEPT !.k = IF rc.op = "zscan" THEN "zscan" ELSE "hof", !.zid = r, !.emit = FALSE, !.also = chain]>>)
      [] it.k = "k_setreg" -> [m0 EXCEPT !.reg = m0.rv]
      [] it.k = "hof" -> HofStep(m0, it)
      [] it.k = "zscan" -> ZScanStep(m0, it)
      [] it.k = "hofk" -> HofK(m0, it)
      [] it.k = "multi" -> MultiStep(m0, it)
      [] it.k = "multik" -> MultiK(m0, it)
      [] it.k = "list" ->
           IF it.rest = <<>> THEN Push(m0, VL(it.acc))
           ELSE [m0 EXCEPT !.acts = Append(@, Act(Stk(m0), "item", Assigned(Head(it.rest)), NoFn)),
                           !.ctl = Nodes(Head(it.rest)) \o <<[k |-> "itemret"], [it EXCEPT !.rest = Tail(it.rest), !.k = "listk"]>> \o @]
      [] it.k = "itemret" ->
           [m0 EXCEPT !.rv = IF Stk(m0) = <<>> THEN [none |-> TRUE] ELSE Last(Stk(m0)), !.acts = Front(@)]
      [] it.k = "listk" ->
           PushCtl(m0, <<[it EXCEPT !.k = "list", !.acc = IF "none" \in DOMAIN m0.rv THEN it.acc ELSE Append(it.acc, m0.rv)]>>)
      [] OTHER -> Undef(m0, "ctl-item")

---------------------------------------------------------------------------
(* end of program: implicit output (main.py execute_vyxal)                 *)

RECURSIVE JoinNL(_)
JoinNL(vs) == IF vs = <<>> THEN <<>>
              ELSE IF Len(vs) = 1 THEN Str(vs[1]) ELSE Str(vs[1]) \o NL \o JoinNL(Tail(vs))

Finish(m) ==
    \* flag W: output = vy_str(stack) is built whether or not anything is written -- every cell on the stack is produced
    IF "W" \in m.cfg.flags /\ (\E k \in 1..Len(Stk(m)) : ZIn(Resolve(m, Stk(m)[k])))
    THEN PushCtl(m, <<[k |-> "k_render", v |-> VL(Stk(m))]>>) ELSE
    LET empty == Stk(m) = <<>>
        p == Pop1(m)
        o == p[1]
        m1 == p[2]
        fl == m.cfg.flags
        doprint == (~m1.printed /\ "O" \notin fl) \/ "o" \in fl
        text == CASE "W" \in fl -> IF empty THEN Str(VL(<<>>))
                                   ELSE IF Printable(Resolve(m, VL(Append(Stk(m1), o)))) THEN Str(Resolve(m, VL(Append(Stk(m1), o))))
                                   ELSE <<0>>
                  \* vy_sum / join walk over helpers.iterable(output): digits of a number, characters of a text
                  [] "s" \in fl -> IF FoldOK(o) THEN (IF IsU(Clean(SumList(FoldItems(o)))) THEN <<0>> ELSE Str(Clean(SumList(FoldItems(o))))) ELSE <<0>>
                  [] "j" \in fl -> IF FoldOK(o) THEN JoinNL(FoldItems(o)) ELSE <<0>>
                  [] OTHER -> IF Printable(o) THEN Str(o) ELSE <<0>>
    IN IF ~(fl \subseteq {"H", "M", "m", "O", "o", "W", "s", "j"}) THEN Undef(m1, "flag-outside-core")
       ELSE IF IsF(o) /\ fl \cap {"W", "s", "j"} = {}
       THEN (IF doprint THEN PrintVal(m1, o, NL, <<[k |-> "k_done"]>>) ELSE [m1 EXCEPT !.status = "done"])
       ELSE IF ZIn(o) /\ fl \cap {"W", "s", "j"} = {}
       THEN (IF doprint THEN PrintVal(m1, o, NL, <<[k |-> "k_done"]>>) ELSE [m1 EXCEPT !.status = "done"])
       ELSE IF text = <<0>> \/ ~Printable(IF "W" \in fl THEN Resolve(m, o) ELSE o) THEN Undef(m1, "implicit-output-outside-core")
       ELSE LET m2 == IF "W" \in fl /\ ~empty THEN Push(m1, o) ELSE m1      \* stack.append(output)
            IN [m2 EXCEPT !.status = "done", !.out = IF doprint THEN @ \o text \o NL ELSE @]

---------------------------------------------------------------------------
MaxSteps == 1500

Step(m) ==
    IF m.status # "run" THEN m
    ELSE IF m.steps >= MaxSteps THEN Undef(m, "step-budget")
    ELSE IF m.ctl = <<>> THEN [Finish(m) EXCEPT !.steps = m.steps + 1]
    ELSE LET r == ItemStep(Cont(m), Head(m.ctl))
         IN [r EXCEPT !.steps = m.steps + 1]

(* the next thing to do is a statement of the module frame: a probe point *)
AtProbe(m) == /\ m.status = "run" /\ m.ctl # <<>> /\ Len(m.acts) = 1
              /\ Head(m.ctl).k = "node" /\ Head(m.ctl).n.t # "tok"

RECURSIVE RunToProbe(_)
RunToProbe(m) ==       \* at least one step, then on to the next probe point / end
    LET n == Step(m)
    IN IF n.status # "run" \/ AtProbe(n) THEN n ELSE RunToProbe(n)

RECURSIVE RunToEnd(_)
RunToEnd(m) == IF m.status # "run" THEN m ELSE RunToEnd(Step(m))

Depths(m) == <<Len(m.cvals), Len(m.inps), m.nstk, Len(m.fstk)>>
====
