SPECIFICATION Spec
CONSTANT MaxToks = 5
INVARIANT ValidPython
CHECK_DEADLOCK FALSE
