"""C16 List builtins obey their defining laws.

Spec:  VyListLaws (37 laws as predicates over arguments and result) with
       MC_ListLaws as their sanity check (definitional results satisfy them,
       perturbed results do not).
Bind:  every builtin is called on every integer list of the tier's domain
       (eager and lazy) and the forced result is judged by TLC with the law.
"""
from __future__ import annotations

import itertools
import time

from . import c08, common, tlc

PID = "C16"

# law -> (function name, kind)   kind: "1" list ; "2" two lists ; "x" list + scalar ; "n" nested argument
LAWS = {
    "sort": ("vy_sort", "1"), "reverse": ("reverse", "1"), "uniquify": ("uniquify", "1"), "flatten": ("deep_flatten", "n"),
    "sum": ("vy_sum", "1"), "product": ("product", "1"), "max": ("monadic_maximum", "1"), "min": ("monadic_minimum", "1"),
    "cumsum": ("cumulative_sum", "1"), "deltas": ("deltas", "1"), "zip": ("vy_zip", "2"), "interleave": ("interleave", "2"),
    "uninterleave": ("uninterleave", "1"), "chunks": ("wrap", "x"), "prefixes": ("prefixes", "1h"), "sublists": ("sublists", "1"),
    "powerset": ("powerset", "1"), "permutations": ("permutations", "1"), "cartesian": ("cartesian_product", "2"),
    "count": ("count_item", "x"), "contains": ("contains", "x"), "group": ("group_consecutive", "1"),
    "gradeup": ("grade_up", "1"), "gradedown": ("grade_down", "1"), "counts": ("counts", "1"), "length": ("length", "1"),
    "head": ("head", "1"), "tail": ("tail", "1"), "behead": ("head_remove", "1"), "curtail": ("tail_remove", "1"),
    "merge": ("merge", "2"), "any": ("any_true", "1"), "all": ("all_true", "1"), "enumerate": ("vy_enumerate", "1"),
    "allequal": ("all_equal", "1"), "involution": ("reverse", "inv"), "wrap1": ("__wrap__", "w"),
}


def mk(lst, lazy):
    from vyxal.LazyList import LazyList

    return LazyList(iter(list(lst))) if lazy else list(lst)


def call_law(law, A, B, x, lazy):
    import vyxal.elements as E
    import vyxal.helpers as H
    from vyxal.context import Context

    ctx = Context()
    fn, kind = LAWS[law]
    ev = {"law": law, "a": list(A), "b": list(B), "x": x, "out": {"i": 0}, "err": ""}
    try:
        if kind == "1":
            r = getattr(E, fn)(mk(A, lazy), ctx)
        elif kind == "1h":
            r = getattr(H, fn)(mk(A, lazy), ctx)
        elif kind == "2":
            r = getattr(E, fn)(mk(A, lazy), mk(B, lazy and len(B) % 2 == 0), ctx)
        elif kind == "x":
            r = getattr(E, fn)(mk(A, lazy), x, ctx)
        elif kind == "n":
            # nest A deterministically: [[a0, a1], a2, [[a3], a4], ...]
            # shapes in turn: a (lazy) row, a bare leaf, a plain list holding a (lazy) row, a plain list of
            # leaves and a (lazy) row -- lazily generated rows inside plain lists included
            nested, i, turn = [], 0, 0
            while i < len(A):
                k = turn % 4
                turn += 1
                if k == 0:
                    nested.append(mk(A[i:i + 2], lazy)); i += 2
                elif k == 1:
                    nested.append(A[i]); i += 1
                elif k == 2:
                    nested.append([mk(A[i:i + 1], lazy)]); i += 1
                else:
                    nested.append([A[i], mk(A[i + 1:i + 3], lazy)]); i += 3
            r = getattr(E, fn)(mk(nested, False), ctx)
        elif kind == "inv":
            r = E.reverse(E.reverse(mk(A, lazy), ctx), ctx)
        else:
            r = [mk(A, lazy)]
        ev["out"] = common.with_alarm(lambda _: c08.tagged(H.vyxalify(r) if not isinstance(r, list) else r), None, 10)
    except common.CaseTimeout:
        ev["err"] = "hang"
    except Exception as e:  # noqa: BLE001
        ev["err"] = type(e).__name__
    return ev


def rows_calls(A, lazy, variant):
    """laws on lists of ROWS: the rows are cut from A (prefix-related rows, a longer one before a shorter one,
    repeated rows included); rows and the outer list are eager or lazy"""
    import vyxal.elements as E
    import vyxal.helpers as H
    from vyxal.context import Context

    base = list(A[:4]) or [1]
    shapes = [[base, base[:-1], base[:1], base], [base[:1], base[:2], base[:1], base[:3]], [base[:2], base[:2], base[1:]],
              [base, base[:2], base[:2] + [9], base[:1], []], [[], [], base[:1]]]
    R = [list(r) for r in shapes[variant % len(shapes)]]
    probe = [list(R[0][:-1]), list(R[-1]), list(R[0]), list(base[:1]) + [7]][variant % 4]

    def build(inner_lazy, outer_lazy):
        rows = [mk(r, inner_lazy) for r in R]
        return mk(rows, outer_lazy)
    calls = []
    for law, fn, kind in (("rows-uniquify", "uniquify", "1"), ("rows-count", "count_item", "p"), ("rows-contains", "contains", "p"),
                          ("rows-allequal", "all_equal", "1"), ("rows-counts", "counts", "1"), ("rows-group", "group_consecutive", "1")):
        for il, ol in ((lazy, False), (lazy, True), (False, lazy)):
            ctx = Context()
            ev = {"law": law, "a": R, "b": probe, "x": 0, "out": {"i": 0}, "err": ""}
            try:
                arg = build(il, ol)
                r = getattr(E, fn)(arg, ctx) if kind == "1" else getattr(E, fn)(arg, mk(probe, il), ctx)
                ev["out"] = common.with_alarm(lambda _: c08.tagged(H.vyxalify(r) if not isinstance(r, list) else r), None, 10)
            except common.CaseTimeout:
                ev["err"] = "hang"
            except Exception as e:  # noqa: BLE001
                ev["err"] = type(e).__name__
            calls.append(ev)
    return calls


def self_pair_calls(A, variant):
    """a lazy list that was partly looked at (first item, a membership test that succeeds early, a truth test)
    and is then paired with its own duplicate, as the element z and the idioms :Z :Y do"""
    import vyxal.elements as E
    import vyxal.helpers as H
    from vyxal.context import Context

    calls = []
    if not A:
        return calls
    for peek in range(4):
        ctx = Context()
        ev = {"law": "zip-self", "a": list(A), "b": [], "x": 0, "out": {"i": 0}, "err": ""}
        try:
            L = mk(A, True)
            if peek == 0:
                E.head(L, ctx)
            elif peek == 1:
                E.contains(L, A[min(len(A) - 1, 1 + variant % 3)], ctx)
            elif peek == 2:
                bool(L)
            r = E.vy_zip(L, H.deep_copy(L), ctx)
            ev["out"] = common.with_alarm(lambda _: c08.tagged(r), None, 10)
        except common.CaseTimeout:
            ev["err"] = "hang"
        except Exception as e:  # noqa: BLE001
            ev["err"] = type(e).__name__
        calls.append(ev)
    return calls


def nested_fold_calls(A, lazy, variant):
    """sum and product of a list whose items are integers and flat lists (folds of the vectorising + and *)"""
    import vyxal.elements as E
    import vyxal.helpers as H
    from vyxal.context import Context

    a = list(A[:5])
    if len(a) < 2:
        return []
    shapes = [[a[:2], a[2] if len(a) > 2 else 3], [a[0], a[1:3]], [a[:2], a[2:4] or [1]], [a[0], a[1], a[2:] or [2]], [[], a[0]]]
    N = shapes[variant % len(shapes)]
    calls = []
    for law, fn in (("sum-nested", "vy_sum"), ("product-nested", "product")):
        for inner_lazy in (False, lazy):
            ctx = Context()
            ev = {"law": law, "a": [], "b": [], "x": c08.tagged(N), "out": {"i": 0}, "err": ""}
            try:
                arg = [mk(v, inner_lazy) if isinstance(v, list) else v for v in N]
                r = getattr(E, fn)(arg, ctx)
                ev["out"] = common.with_alarm(lambda _: c08.tagged(H.vyxalify(r) if not isinstance(r, list) else r), None, 10)
            except common.CaseTimeout:
                ev["err"] = "hang"
            except Exception as e:  # noqa: BLE001
                ev["err"] = type(e).__name__
            calls.append(ev)
    return calls


def text_calls(A, x):
    """the same laws on a TEXT of digits with a one-digit needle (counting / membership treat the text as the
    list of its characters; the needle may be given as a number)"""
    import vyxal.elements as E
    from vyxal.context import Context

    digits = [abs(v) % 10 for v in A]
    if not digits:
        return []
    text = "".join(map(str, digits))
    d = abs(x) % 10
    calls = []
    for law, fn, needle in (("count", "count_item", d), ("count", "count_item", str(d)), ("contains", "contains", str(d)),
                            ("length", "length", None), ("reverse", "reverse", None)):
        ev = {"law": law, "a": digits, "b": [], "x": d, "out": {"i": 0}, "err": ""}
        try:
            r = getattr(E, fn)(text, needle, Context()) if needle is not None else getattr(E, fn)(text, Context())
            if isinstance(r, str):
                r = [int(c) for c in r]
            ev["out"] = c08.tagged(r)
        except Exception as e:  # noqa: BLE001
            ev["err"] = type(e).__name__
        calls.append(ev)
    return calls


def observe(case):
    A, B, x, lazy = case
    calls = []
    calls += text_calls(A, x)
    calls += rows_calls(A, lazy, len(A) + x) + self_pair_calls(A, x) + nested_fold_calls(A, lazy, len(A) + x)
    for law, (fn, kind) in LAWS.items():
        if law in ("powerset", "permutations", "sublists") and len(A) > 5:
            continue
        if law == "chunks" and not (1 <= x <= 4):
            continue
        if law == "product" and len(A) > 9:
            continue        # TLC integers are 32-bit: 9^9 fits, 9^10 does not (a false alarm of a thorough run otherwise)
        if kind == "2" or law in ("sort", "cumsum", "group", "counts", "uniquify", "gradeup") or (len(A) + x) % 2 == 0 or len(A) <= 2:
            calls.append(call_law(law, A, B, x, lazy))
    return {"calls": calls}


def main(tier):
    t0 = time.time()
    rng = common.rng(16)
    V = common.Verdicts(PID)
    common.import_repo()
    n = 4 if tier == "quick" else 5
    vals = (-2, -1, 0, 1, 2, 3)
    lists = [list(t) for L in range(0, n + 1) for t in itertools.product(vals, repeat=L)]
    if tier == "quick":
        lists = [l for i, l in enumerate(lists) if len(l) <= 3 or i % 3 == 0]
    cs = []
    for i, A in enumerate(lists):
        B = [7, 8, 9][: i % 4] if i % 2 else list(reversed(A))[: (i % 3)]
        cs.append((A, B, (i % 5) + 0 if i % 5 else 1, i % 3 == 2))
    for _ in range(300 if tier == "quick" else 4000):
        A = [rng.randint(-9, 9) for _ in range(rng.randint(0, 12))]
        B = [rng.randint(-9, 9) for _ in range(rng.randint(0, 12))]
        cs.append((A, B, rng.randint(1, 4), rng.random() < 0.4))
    with common.Scratch(PID) as s:
        mc = tlc.model_check(s, "MC_ListLaws", cfg="MC_ListLaws", workers=16)
        if not mc["ok"]:
            V.add("spec:MC_ListLaws:" + str(mc["violated"]), {"trace": tlc.counterexample(mc["out"])})
        obs = common.pool_map(observe, cs, initfn=common.import_repo, hard_timeout=120, on_timeout=lambda c: {"calls": []})
        common.retry_hangs(cs, obs, observe)      # a watchdog firing under load is re-observed alone, with longer alarms
        verdicts, st = tlc.validate(s, "Trace_Laws", obs, cfg="Trace_Laws.cfg", chunk=500)
    tally = {}
    ncalls = sum(len(o["calls"]) for o in obs)
    for c, v in zip(cs, verdicts):
        tally[v] = tally.get(v, 0) + 1
        if v.startswith("violation"):
            V.add(f"{v.split(':', 1)[1]}:{c[0]}:{c[1] if 'zip' in v or 'merge' in v or 'cartesian' in v or 'interleave' in v else ''}:x={c[2]}:{'lazy' if c[3] else 'eager'}",
                  {"law": v.split(":", 1)[1], "a": c[0], "b": c[1], "x": c[2], "lazy": c[3]})
    rc = V.finish()
    common.write_evidence(
        PID, tier, t0,
        {
            "states": mc["distinct"], "transitions": mc["generated"], "traces_validated_against_impl": len(cs),
            "samples": [{"a": c[0], "b": c[1], "x": c[2], "lazy": c[3], "verdict": v} for c, v in list(zip(cs, verdicts))[:: max(1, len(cs) // 12)][:12]],
            "evaluations": ncalls, "distinct_nontrivial": len(cs),
            "rule": f"every integer list of length <= {n} over -2..3 ({'all of length <= 3, every third longer one' if tier == 'quick' else 'all'}) "
                    f"with a second list and a scalar, a third of them lazy, plus random lists to length 12; {len(LAWS)} laws per list "
                    "(binary laws and a rotating half of the unary ones per list); distinct argument tuples",
            "verdicts": tally, "laws": sorted(LAWS), "mc": {"module": "MC_ListLaws", "distinct": mc["distinct"]},
            "trace_tlc": {k: st[k] for k in st if k != "extra"}, "exhaustive": False,
        },
        ["laws are the textbook definitions written in spec/VyListLaws.tla; results are forced and compared structurally",
         "transcribed-function form: the ∀ is over inputs"],
        len(V.violations),
    )
    print(f"C16 {tier}: {len(cs)} lists / {ncalls} calls, verdicts {tally}, {time.time() - t0:.1f}s")
    return rc
