---- MODULE MC_Heap ----
(***************************************************************************)
(* C10 at design level: values live in cells; references (stack entries,   *)
(* variables, the register) hold cell ids.  The copy made by dup is, as in *)
(* helpers.deep_copy, a lazy VIEW of the source (LazyList over tee): it    *)
(* reads the source's items when it is first observed.                     *)
(*   NewList(items)       allocate                                         *)
(*   Dup(c)               allocate a view of c                             *)
(*   Observe(c)           force a view (it takes the source's items now)   *)
(*   AssignCopy(c, v)     an element that builds a new list (allowed)      *)
(*   AssignInPlace(c, v)  an element that writes into its argument         *)
(*                        (only if AllowInPlace: assign_iterable and       *)
(*                        gen_from_fn at the pinned commit)                *)
(* Immutable: the value a cell denotes never changes.  With in-place       *)
(* writes forbidden the view scheme is sound; with them TLC shows the      *)
(* duplicate changing under the user's feet.                               *)
(***************************************************************************)
EXTENDS Integers, Sequences, TLC

CONSTANTS MaxCells, AllowInPlace

VARIABLE cells      \* sequence of [kind |-> "list", items] | [kind |-> "view", src, forced, items]
Init == cells = <<>>

RECURSIVE Denote(_, _)
Denote(cs, i) ==
    IF cs[i].kind = "list" THEN cs[i].items
    ELSE IF cs[i].forced THEN cs[i].items ELSE Denote(cs, cs[i].src)

Room == Len(cells) < MaxCells
NewList(items) == Room /\ cells' = Append(cells, [kind |-> "list", items |-> items])
Dup(c) == Room /\ cells' = Append(cells, [kind |-> "view", src |-> c, forced |-> FALSE, items |-> <<>>])
Observe(c) == /\ cells[c].kind = "view" /\ ~cells[c].forced
              /\ cells' = [cells EXCEPT ![c].forced = TRUE, ![c].items = Denote(cells, c)]
AssignCopy(c, v) == /\ Room /\ Denote(cells, c) # <<>>
                    /\ cells' = Append(cells, [kind |-> "list", items |-> [Denote(cells, c) EXCEPT ![1] = v]])
AssignInPlace(c, v) == /\ AllowInPlace /\ cells[c].kind = "list" /\ cells[c].items # <<>>
                       /\ cells' = [cells EXCEPT ![c].items[1] = v]

Next == \/ \E items \in {<<1, 2>>, <<3>>} : NewList(items)
        \/ \E c \in 1..Len(cells) : Dup(c) \/ Observe(c) \/ AssignCopy(c, 9) \/ AssignInPlace(c, 9)
Spec == Init /\ [][Next]_cells

Immutable == [][\A c \in 1..Len(cells) : Denote(cells', c) = Denote(cells, c)]_cells
====
