---- MODULE Trace_Number ----
(***************************************************************************)
(* C05: a text of digits and points is run alone; vals is what it pushed   *)
(* (type class, sign, numerator and denominator as decimal digit lists).   *)
(* TLC lexes the text with the reference lexer, denotes every token and    *)
(* compares exactly (cross-multiplication over BigNat).                    *)
(***************************************************************************)
EXTENDS VyNumber, Json, IOUtils, TLCExt

BatchFile == JsonDeserialize(IOEnv.TRACE_FILE)
ASSUME TLCSet(7, BatchFile)
Batch == TLCGet(7)

VARIABLES tid, phase
T == Batch[tid]

ValueOK(v, tokv) ==
    LET d == Denote(tokv)
    IN ~v.neg /\ RatEq(FromDigits(v.num), FromDigits(v.den), d[1], d[2])

(* the implementation's scanner finds the same tokens, and every NUMBER token is the same text *)
LexOK(t, toks) ==
    /\ Len(t.toks) = Len(toks)
    /\ \A i \in 1..Len(toks) : (toks[i].k = "number" \/ t.toks[i].k = "number") => t.toks[i] = toks[i]

IsSpaceTok(tk) == tk.k = "general" /\ tk.v = <<32>>

Verdict(t) ==
    LET all == IF "vflag" \in DOMAIN t /\ t.vflag THEN LexV(t.a) ELSE Lex(t.a)
        \* in a text that is run, spaces only separate the literals
        toks == IF "lexonly" \in DOMAIN t /\ t.lexonly THEN all ELSE SelectSeq(all, LAMBDA tk : ~IsSpaceTok(tk))
    IN IF "toks" \in DOMAIN t /\ ~LexOK(t, all) THEN "violation:split"
       ELSE IF "lexonly" \in DOMAIN t /\ t.lexonly
       THEN (IF \E i \in 1..Len(toks) : toks[i].k = "number" THEN "ok" ELSE "skip:no-number")
       ELSE IF \E i \in 1..Len(toks) : toks[i].k # "number" \/ ~IsPlainNumber(toks[i].v)
       THEN "skip:not-plain-number-text"
       ELSE IF t.err # "" THEN "violation:raised"
       \* a context that holds the (single) literal several times: every copy arrives
       ELSE IF "reps" \in DOMAIN t /\ t.reps > 1
       THEN (IF Len(toks) # 1 THEN "skip:not-a-single-literal"
             ELSE IF Len(t.vals) # t.reps THEN "violation:split"
             ELSE IF \E i \in 1..t.reps : t.vals[i].ty \notin {"int", "rational"} THEN "violation:type"
             ELSE IF \E i \in 1..t.reps : ~ValueOK(t.vals[i], toks[1].v) THEN "violation:value"
             ELSE "ok")
       ELSE IF Len(t.vals) # Len(toks) THEN "violation:split"
       ELSE IF \E i \in 1..Len(toks) : t.vals[i].ty \notin {"int", "rational"} THEN "violation:type"
       ELSE IF \E i \in 1..Len(toks) : ~ValueOK(t.vals[i], toks[i].v) THEN "violation:value"
       ELSE "ok"

Init == tid \in 1..Len(Batch) /\ phase = "start"
Decide == /\ phase = "start" /\ phase' = "done" /\ tid' = tid
          /\ PrintT(<<"V", tid, Verdict(T)>>)
Next == Decide
====
