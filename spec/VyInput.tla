---- MODULE VyInput ----
(***************************************************************************)
(* The input stream (documents/specs/Input.md, vyxal/context.py            *)
(* Context.inputs, vyxal/helpers.py get_input and pop): a stack of scopes  *)
(* <<vals, cur>>.  Scope 1 holds the program's inputs; every lambda /      *)
(* named-function call pushes a scope holding that call's arguments.       *)
(*                                                                         *)
(*   ExplicitRead      the input element: always scope 1, cyclically       *)
(*   ImplicitRead      a pop from an empty stack: the TOP scope,           *)
(*                     cyclically; an empty scope delivers 0               *)
(*   Enter(args)       call of a lambda / function with those arguments    *)
(*   Leave             return                                              *)
(*                                                                         *)
(* State: scopes, delivered (history variable: every value handed out, in  *)
(* order, with the depth it was read at and its kind).                     *)
(***************************************************************************)
EXTENDS Integers, Sequences, FiniteSets

Scope(vals) == [vals |-> vals, cur |-> 0]
Cyclic(sc) == IF sc.vals = <<>> THEN 0 ELSE sc.vals[(sc.cur % Len(sc.vals)) + 1]

InitInput(inputs) == [scopes |-> <<Scope(inputs)>>, delivered |-> <<>>]

Deliver(s, v, kind) ==
    [s EXCEPT !.delivered = Append(@, [v |-> v, depth |-> Len(s.scopes), kind |-> kind])]

DoExplicit(s) ==
    LET v == Cyclic(s.scopes[1])
    IN Deliver([s EXCEPT !.scopes[1].cur = @ + 1], v, "explicit")

DoImplicit(s) ==
    LET d == Len(s.scopes)
        v == Cyclic(s.scopes[d])
    IN Deliver(IF s.scopes[d].vals = <<>> THEN s ELSE [s EXCEPT !.scopes[d].cur = @ + 1], v, "implicit")

DoEnter(s, args) == [s EXCEPT !.scopes = Append(@, Scope(args))]
DoLeave(s) == [s EXCEPT !.scopes = SubSeq(@, 1, Len(@) - 1)]

(* one history item: [a |-> "E"] | [a |-> "P", k |-> 1..3] | [a |-> "L", args |-> <<..>>]   *)
(* (lambda) | [a |-> "F", args |-> <<..>>] (function) | [a |-> "X"] (leave)                 *)
RECURSIVE Times(_, _, _)
Times(F(_), n, s) == IF n = 0 THEN s ELSE Times(F, n - 1, F(s))

Apply(s, h) ==
    CASE h.a = "E" -> DoExplicit(s)
      [] h.a = "P" -> Times(DoImplicit, h.k, s)
      [] h.a \in {"L", "F"} -> DoEnter(s, h.args)
      [] OTHER -> DoLeave(s)

RECURSIVE RunHistory(_, _)
RunHistory(s, hs) == IF hs = <<>> THEN s ELSE RunHistory(Apply(s, Head(hs)), Tail(hs))

(* well-nested: never leaves more than it entered *)
RECURSIVE Nesting(_, _)
Nesting(hs, d) ==
    IF hs = <<>> THEN d
    ELSE IF d < 0 THEN -1
    ELSE Nesting(Tail(hs), IF Head(hs).a \in {"L", "F"} THEN d + 1 ELSE IF Head(hs).a = "X" THEN d - 1 ELSE d)

---------------------------------------------------------------------------
(* C11 as predicates over the delivered history                            *)

TopLevelDeliveries(s) ==   \* deliveries that consumed the program's inputs, in order
    LET idx == {i \in 1..Len(s.delivered) : s.delivered[i].kind = "explicit" \/ s.delivered[i].depth = 1}
        F[i \in 0..Len(s.delivered)] ==
            IF i = 0 THEN <<>> ELSE IF i \in idx THEN Append(F[i - 1], s.delivered[i].v) ELSE F[i - 1]
    IN F[Len(s.delivered)]

CyclicStream(inputs, s) ==
    LET t == TopLevelDeliveries(s)
    IN \A k \in 1..Len(t) : t[k] = IF inputs = <<>> THEN 0 ELSE inputs[((k - 1) % Len(inputs)) + 1]

CursorCounts(s) == s.scopes[1].cur =
    IF s.scopes[1].vals = <<>> THEN Cardinality({i \in 1..Len(s.delivered) : s.delivered[i].kind = "explicit"})
    ELSE Len(TopLevelDeliveries(s))
====
