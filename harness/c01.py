"""C01 Structures execute as specified; C12 shares the runs (see c12.py).

Spec:  MC_Machine (every program <= MaxToks tokens over 22 symbols x 3 input
       lists, step by step: status, balance, frame rule, scopes).
Bind:  programs (the same small ones as text, plus structured random programs
       from gen.MachineGen over the closed core) run through execute_vyxal
       with statement probes; Trace_Machine steps VyMachine in lock-step with
       the probes and decides Prop_C01 on the final stack and printed text.
"""
from __future__ import annotations

import itertools
import time

from . import common, gen, machine, tlc

PID = "C01"
ALPHA = list("12+:_,n?[|](){}λ;ƛ†XxW")


def cases(tier, rng, ctl=True):
    out = []
    n = 3 if tier == "quick" else 4
    small = ["".join(t) for k in range(0, n + 1) for t in itertools.product(ALPHA, repeat=k)]
    if tier == "quick":
        # all programs <= 2 symbols on all three input lists; 3 symbols on one input list each;
        # unconditional while loops almost never terminate (each costs seconds of sympy time in the
        # implementation before the probe budget stops it): the quick tier leaves them to MC_Machine
        # and to the bounded-while programs of the random generator
        small = [p for p in small if "{" not in p or len(p) <= 2]
        for p in small:
            if len(p) <= 2:
                for inp in machine.INPUT_SETS:
                    out.append((p, "", inp))
            else:
                out.append((p, "", machine.INPUT_SETS[len(out) % 3]))
    else:
        for p in small:
            if len(p) <= 3:
                for inp in machine.INPUT_SETS:
                    out.append((p, "", inp))
            elif rng.random() < 0.25:
                out.append((p, "", rng.choice(machine.INPUT_SETS)))
    g = gen.MachineGen(rng, ctl=ctl)
    nr = 1500 if tier == "quick" else 20000
    for i in range(nr):
        p = g.program(depth=rng.choice([2, 3, 3, 4]))
        for fl in (["", rng.choice(machine.FLAG_SETS[1:])] if tier == "quick" else machine.FLAG_SETS):
            out.append((p, fl, rng.choice(machine.INPUT_SETS)))
    hand = ["1 2+", "3(n,)", "0[1|2|3]", "0[1|0|3|4]", "1 2 3 λ2|W;†", "7 8⟨:|+|_⟩", "@f:2|+;3 4@f;", "1 2 3 ≬+-N†",
            "3 4₌+-", "3 4₍+-", "⟨3|1|2⟩µN;", "5ɾ'2<;", "⟨1|2|3⟩ƒ+", "⟨1|2|3⟩ɖ+", "3 →x ←x ←x+", "4 £¥¥*", "3(n)W",
            "3(X)", "3(x1,)", "3{:|‹x}", "λ1X2;†", "λ[1|X]3;†", "5λ:1>[‹x]|1;†", "@f:p|←p d;4@f;", "1 2⟨3(X)⟩",
            "3ɾ(n[X])", "{X|1}", "2 3 4λ3|W;†", "1 2~+", "3ɾ~›", "2&›¥", "5 3ß›", "0 3ß›", "3⁽d†", "3‡d›†",
            # early exits of named functions, directly / under an if / on a later call / in a loop
            "@f:1|X 5;3 @f;", "@f:1|:2>[X]d;1 @f;5 @f;", "@f:1|x;3 @f;", "3(@f|X;@f;)", "@f:2|+X1;1 2@f;3 4@f;",
            "@f|1[X]2;@f;@f;", "@f:1|[X|x];0 @f;1 @f;",
            # X / x in a while condition, met on the first or on a later evaluation, alone or nested in a loop
            "2({¥[X]¥¬|1£})", "0→a 2({←a [X]←a ¬|1→a })", "{X|1}", "1{[X]0|}", "3({x0|})", "2(1{:[X]‹|_0})",
            "λ{X0|};†", "2(n{X|})",
            # stack underflow at top level first, then underflow inside a lambda / map / function / list item
            "+5λ+;†", "+3 4ƛ+;", "+@f:1|+;2@f;", "-1 2 3Wƛ-;", "+λ2|+;†", "_λ+;†,", "+⟨+|-⟩", "+3(+)", "++λ++;†",
            "?+5λ+;†", "+5λ?+;†", "+'+;", "+µ+;", "+1 2₌+-", "+3ɾv+", "+3&+¥"]
    for p in hand:
        for fl in ["", "W"]:
            for inp in machine.INPUT_SETS:
                out.append((p, fl, inp))
    # the same scenario shapes, varied: underflow prefixes x call shapes, function bodies with early exits
    for pre in ["", "+", "-_", "?_", "+,"]:
        for call in ["5λ+;†", "λ+;†", "3 4ƛ+;", "@f:1|+;2@f;", "@f:2|+;@f;", "2λ2|+;†", "3ɾ'+;", "⟨+⟩", "1 2₍+-", "4λ1|+;†+"]:
            out.append((pre + call, rng.choice(["", "W"]), rng.choice(machine.INPUT_SETS)))
    for body in ["X", "[X]", "1[X]2", ":[X|x]", "2(X)3", "λX;†", "x", "+X-"]:
        for k in ["", ":1", ":2", ":a"]:
            out.append((f"@f{k}|{body};1 2 @f;3 @f;", rng.choice(["", "W"]), rng.choice(machine.INPUT_SETS)))
            out.append((f"2(@f{k}|{body};1 2 @f;)", "", rng.choice(machine.INPUT_SETS)))
    for cond in ["X", "[X]", "¥[X]¥¬", "x0", ":[X]", "n[X]0"]:
        for wrap in ["{%s|1£}", "2({%s|1£})", "λ{%s|1£};†", "3({%s|}1)", "1{:|{%s|0}_‹}"]:
            out.append((wrap % cond, "", rng.choice(machine.INPUT_SETS)))
    # every program over the third alphabet of MC_Machine (lazily produced lists: a map lambda that prints, the ways of
    # printing, copying, moving and wrapping the reference)
    for k in range(1, (4 if tier == "quick" else 5) + 1):
        for t in itertools.product("2ƛ,…;:$w", repeat=k):
            if "ƛ" in t:
                out.append(("".join(t), "", machine.INPUT_SETS[1]))
    out += families(tier, rng)
    return list(dict.fromkeys((c[0], c[1], tuple(map(repr, c[2]))) for c in out)), out


SLOTS = ["□", "1[□]", "0[1|□]", "2(□)", "2(i|□)", "0{:3<|›□}_", "0{:n+3<|›□}_", "1{n 2<|□ 5}_", "6λ□;†_", "3 4λ2|□;†_",
         "⟨□|□⟩_", "⟨4|5⟩ƛ□;_", "5@f:1|□;@f;_", "2 3'□;_", "⟨2|1⟩µ□;_", "8 9₌λ□;λ□;__", "4⁽□†_", "1 7ßλ□;_", "⟨6|7⟩vλ□;_"]
LEAVES = ["n,", "n", "n n+,", "n→a ←a,", "n£¥,"]
MOD_OPERANDS = ["+", "_", ":", "$", "W", "λ2|:+*;", "λ2|_;", "λ2|$-;", "λ1|:+;", "λ3|W;", "λ0|7;", "λ2|→a ←a;", "λ_;",
                "λ2|W;", "1", "n", "←a", "λ2|n;", "λ2|+_;", "λ3|__;", "λ2|?;", "λ2|!;", "[1|2]", "(n)", "⟨+⟩", "vN", "~+", "λ3|-+;", "λ3|$-*;", "λ2|-;", "λ3|_$-;"]
MOD_STACKS = ["3 4 ", "3 4 5 ", "⟨1|2⟩ 3 ", "3 ⟨1|2⟩ ", "⟨1|2⟩⟨3|4⟩ ", "", "0 1 ", "1 0 2 ", "⟨1|2⟩ 5 7 ", "⟨4|6⟩ 7 5 ", "9 ⟨1|2⟩ 5 7 "]


def families(tier, rng):
    """systematic scenario families (every combination, not samples):
    A  the context variable read in every body position of every structure, nested two deep
    B  every modifier x operand shape (elements, lambdas of arity 0..3 whose bodies consume, keep or
       inspect their arguments, structures) x stack shape"""
    out = []
    inp = machine.INPUT_SETS
    for s1 in SLOTS:
        for leaf in LEAVES:
            out.append((s1.replace("□", leaf), "", inp[0]))
        for s2 in SLOTS:
            for leaf in (LEAVES if tier == "thorough" else LEAVES[:3]):
                out.append((s1.replace("□", s2.replace("□", leaf)), rng.choice(["", "W"]), rng.choice(inp)))
    if tier == "thorough":
        for _ in range(6000):
            s1, s2, s3 = (rng.choice(SLOTS) for _ in range(3))
            out.append((s1.replace("□", s2.replace("□", s3.replace("□", rng.choice(LEAVES)))), rng.choice(["", "W"]),
                        rng.choice(inp)))
    # C  every element of the machine's core on every combination of a fixed argument set (numbers of both signs,
    #    zero, empty / flat / nested / constant lists, a lazy range): the conformance of each element rule
    from . import gen_chars
    a1 = ["0 ", "4 ", "7 ", "3N", "9 ", "⟨⟩", "⟨3|1|2⟩", "⟨⟨1|2⟩|3⟩", "⟨0|0⟩", "⟨2|2⟩", "5ɾ", "⟨4⟩", "⟨1N|0|6⟩"]
    a2 = ["0 ", "3 ", "5N", "2 ", "⟨1|2|3⟩", "⟨⟩", "⟨⟨1⟩|2⟩", "⟨3|3N⟩"]
    for name, (ch, ar) in gen_chars.ELEMS.items():
        if name in ("input", "map", "filter", "sortby", "reduce", "call"):
            continue
        if ar <= 1:
            for x in a1:
                out.append(("1 2 " + x + ch, "W", inp[1]))
        else:
            for x in a2:
                for y in a2:
                    out.append(("8 " + x + y + ch, "W", inp[1]))
    # D  denotation twins: the same program with its list literal written as an equivalent lazily produced range;
    #    bodies of lazily evaluated lambdas that read or change interpreter state, or print
    srcs = [("⟨1|2⟩", "2ɾ"), ("⟨1|2|3⟩", "3ɾ"), ("⟨0|1⟩", "2ʁ"), ("⟨0|1|2⟩", "3ʁ"), ("⟨1⟩", "1ɾ"), ("⟨4|5⟩", "⟨4|5⟩0+")]
    shapes = ["3→x □ƛ←x+; 5→x", "□ƛ…; 0,", "1£ □ƛ¥+; 9£", "□λ¥+;M 7£W", "□'…2<; 0,", "□ƛ⅛; ¾", "□ƛ,; 7,", "2£ □'¥<; 0£", "□ƛn£¥; 3£",
              "□ƛ←x; 4→x", "□v… 0,", "1→x □ƛ←x›→x ←x; ←x", "□ƛ…;h 0,", "□ƛ…;L 0,", "□ƛ…;: 0,", "□ƛ…;_ 0,", "3(□ƛn…;)", "□ƛ…;∑ 0,",
              "□ƛ!;", "9 □ƛ¼;⅛", "□λ…;F 0,", "□µ…; 0,", "□ɖ… 0,", "□ƛ…;Ṙ 0,", "□ƛ…;ƛ…; 0,"]
    for a, b in srcs:
        for sh in shapes:
            for fl in ("", "W", "s", "j") if tier == "thorough" else ("", "W"):
                out.append((sh.replace("□", a), fl, inp[0], False, {"twin": sh.replace("□", b)}))
    # E  bodies of lazily evaluated lambdas that RAISE for some item (modulo by zero, a name that does not exist),
    #    consumed in each way; X / x written after a lambda-forming modifier in loops inside lambdas
    for prog in ["⟨5|2|8⟩'12$2-%0=;,", "⟨5|2|8⟩ƛ12$2-%;,", "⟨3|0|1⟩'6$%;W", "⟨1|0⟩ƛ7$%;∑,", "3ʁƛ5$%;L,", "⟨2|0⟩µ9$%;,",
                 "⟨1|2⟩ƛ←q;,", "⟨1|2⟩'←q;L", "3ʁλ4$%;M,n,", "⟨0|0⟩'1$%;h,n,", "2(⟨1|0⟩ƛ3$%;,)n,", "4λ⟨1|0⟩'5$%;,;†n,"]:
        for fl in ("", "W", "O"):
            out.append((prog, fl, inp[0]))
    #    ... and bodies that raise a TypeError (an element applied to a function) consumed through list(): Python's
    #    length-hint protocol swallows a TypeError raised by __len__, the run "completed" with the list cut short and
    #    the interrupted call's bookkeeping left behind (genuine defect, repaired: fix 806df82)
    for prod in ["⟨1|λ_;⟩vN", "⟨3|λ1;|4⟩ƛN;", "1 λ_;W vN", "⟨2|λ1;⟩v›", "⟨λ1;⟩vN"]:
        for cons in ["", "w,", "w…_", "w", "w:,_", ",", "L,", "wL,"]:
            for fl in ("", "W"):
                out.append((prod + cons, fl, inp[0]))
    # G  a lazily produced list of TEXTS written more than once (the same object again, a copy after the original,
    #    the implicit output after an explicit one): the text of a list does not depend on what was printed before
    #    (genuine defect, repaired: fix 38e3b6a -- items produced earlier lost their quotes)
    for prod in ["⟨`ab`|`c`⟩¦", "⟨`ab`|1⟩ƛ;", "⟨`a`|`b`⟩ƛ:+;", "⟨`x`⟩⟨`y`⟩J¦", "⟨`ab`|2⟩ƛ…;", "⟨`a`|`b`|`c`⟩'1;"]:
        for cons in ["……_", "…,", ":,,", "…", "…:,_", "…h_…_", ",", "w…,"]:
            for fl in ("", "o", "W"):
                out.append((prod + cons, fl, inp[0]))
    # H  lazily produced lists whose ITEMS are lazily produced lists, side effects at both levels, written directly
    #    (each inner list in its own bracket as it is produced) or as part of something else (everything outer first,
    #    then the inner ones in order), once or twice, the original or a copy first
    for src in ["2", "⟨1|2⟩", "3"]:
        for body in ["ƛ£¥ƛ¥+;;", "ƛ…ƛ,;;", "ƛnƛ…;;", "ƛ:ƛ…;$_;", "ƛ£ƛ¥…+;;", "ƛ…ƛ…ƛ,;;;"]:
            for cons in ["", "w", "w,", ",", ":,,", "…,", "1\"", "W", ":w,,", "$", "w…_"]:
                for fl in ("", "W") if tier == "quick" else ("", "W", "o", "O"):
                    out.append((src + body + cons, fl, inp[0]))
    #    ... the same one level down: an outer lazily evaluated body that measures / sums an inner lazily produced list
    #    whose body fails for one item, the outer list walked by a loop, joined, summed or taken apart
    for prod in ["⟨⟨1⟩|⟨λ1;⟩|⟨2⟩⟩λvNL;M", "⟨⟨1⟩|⟨λ1;⟩|⟨2⟩⟩ƛvN∑;", "⟨⟨1|2⟩|⟨3|λ1;⟩⟩ƛvNw;", "⟨⟨1⟩|⟨λ1;⟩⟩'vNL;"]:
        for cons in ["(n,)", "(n)", "\\ j,", "∑,", "", "L,", "h,", "ƛ›;,", "÷"]:
            for fl in ("", "j", "W", "s"):
                out.append((prod + cons, fl, inp[0]))
    #    ... and bodies that raise StopIteration for some item (moulding onto an empty list): inside a generator that is an
    #    error; handed to filter() / map() it reads as the end of the list and the run completes with the interrupted
    #    lambda's entries left behind (genuine defects in vy_filter and in the zipmap of vy_zip, repaired: fixes 56ead27, d314572)
    for op in ["λ3ɾ•;F", "λ3ɾ•;M", "'3ɾ•;", "ƛ3ɾ•;", "µ3ɾ•L;", "λ3ɾ•;$F", "λ3ɾ•;$M", "vλ3ɾ•;", "λ3ɾ•;Z", "λ3ɾ•;ɖ", "λ3ɾ•;ṡ",
               "λ3ɾ•;ƒ", "λ3ɾ•;R"]:
        for cons in ["", ",", "L,", "w,", "(n,)", "∑,", ":,,", "h,"]:
            for fl in ("", "W"):
                out.append(("⟨⟨1|2⟩|⟨⟩|⟨3⟩⟩" + op + cons, fl, inp[0]))
    # I  two lazy stages: a cumulative reduction OF a lazily produced list whose body has side effects -- which source
    #    item has been produced when which value is written (the scan holds the next source item before it hands out)
    for src in ["3ƛ…;", "0£⟨1|2|3⟩ƛ:£;", "2ƛ,;", "⟨4|5|6|7⟩ƛ…;", "1ƛ…;", "⟨⟩ƛ…;"]:
        for sc in ["ɖ+", "ɖλ…+;", "ɖ-", "ɖ$", "ɖλ¥+;"]:
            for cons in ["", ",", "w,", ":,,", "…,", "$", "w", "¥,"]:
                for fl in ("", "W") if tier == "quick" else ("", "W", "o"):
                    out.append((src + sc + cons, fl, inp[0]))
    for st in MOD_STACKS[:4]:
        for o in ["λ_;", "λ2|$-;", "λ3|_$-;", "λ1;"]:
            out.append((st + "≬" + o + "WvN†", "W", inp[1]))
    for ctx in ["7λ3(n,□)5;†_ n,", "3(n,□)n,", "2(λ3(□);†)n,", "4λ1{□0};†n,", "2(3(□))n,", "5λ[1|□]2;†n,", "@f|3(□);@f;n,"]:
        for body in ["⁽›_X", "‡›d_X", "≬›dN_X", "⁽›_[1|X]", "⁽›_x", "⁽›†X", "‡+›_ 1[X]", "⁽›_", "X⁽›_"]:
            out.append((ctx.replace("□", body), rng.choice(["", "W"]), rng.choice(inp)))
    # F  continue (x) in while loops next to if statements of the same scope: the loop test after a continue reads
    #    the scope's `condition` variable, which the last if statement (taken or not) or inner while loop assigned
    for body in ["[x]", "[1|x]", "0[1|x]", "1[x|2]", ":2=[x]", ":2=[3|x]", "n[x]", "0[1]x", "1[2]x", "2(n[x])", "1{0}x", "0{1|0}x",
                 "λ0[1];†x", "⟨0[1]⟩_x", "1[0[x]]", "0[1|1[x]]", "n,[x]", ":[x|1]‹"]:
        for loop in ["3{:|‹B}_", "2{:|B‹}_", "1{:|‹,B 9,}_", "3{:|n,‹B}_", "2(2{:|‹B}_)", "λ2{:|‹B};†", "2{:|‹B n,}_ n,"]:
            out.append((loop.replace("B", body), rng.choice(["", "W"]), rng.choice(inp)))
    for st in MOD_STACKS:
        for o in MOD_OPERANDS:
            for m in gen.MONADIC_MODS:
                out.append((st + m + o + ("†" if m == "⁽" else ""), "W", inp[1] if st else inp[2]))
    pairs = [(a, b) for a in MOD_OPERANDS for b in MOD_OPERANDS]
    for m in gen.DYADIC_MODS:
        for a, b in (pairs if tier == "thorough" else rng.sample(pairs, 220)):
            out.append((rng.choice(MOD_STACKS) + m + a + b + ("†" if m == "‡" else ""), "W", rng.choice(inp)))
    for _ in range(300 if tier == "quick" else 5000):
        a, b, c = (rng.choice(MOD_OPERANDS) for _ in range(3))
        out.append((rng.choice(MOD_STACKS) + "≬" + a + b + c + "†", "W", rng.choice(inp)))
    return out


def run(pid, tier, t0, which, seed_extra, ctl=True):
    rng = common.rng(seed_extra)
    V = common.Verdicts(pid)
    with common.Scratch(pid) as s:
        mc = tlc.model_check(s, "MC_Machine", cfg="MC_Machine_quick" if tier == "quick" else "MC_Machine",
                             workers=16, xss="512m", xmx="16g", timeout=3000)
        if not mc["ok"]:
            V.add("spec:MC_Machine:" + str(mc["violated"]), {"trace": tlc.counterexample(mc["out"])})
        # second alphabet: text, the second batch of elements, modifiers, list literals
        mcb = tlc.model_check(s, "MC_Machine", cfg="MC_Machine_B" if tier == "quick" else "MC_Machine_B4",
                              workers=16, xss="512m", xmx="16g", timeout=3000)
        if not mcb["ok"]:
            V.add("spec:MC_Machine(B):" + str(mcb["violated"]), {"trace": tlc.counterexample(mcb["out"])})
        # third alphabet: lazily produced lists (cells, copies, the ways of printing and wrapping them)
        mcz = tlc.model_check(s, "MC_Machine", cfg="MC_Machine_Z" if tier == "quick" else "MC_Machine_Z6",
                              workers=16, xss="512m", xmx="16g", timeout=3000)
        if not mcz["ok"]:
            V.add("spec:MC_Machine(Z):" + str(mcz["violated"]), {"trace": tlc.counterexample(mcz["out"])})
        mc["distinct"] += mcb["distinct"] + mcz["distinct"]
        mc["generated"] += mcb["generated"] + mcz["generated"]
        _, cs = cases(tier, rng, ctl)
        seen = set()
        uniq = []
        for c in cs:
            key = (c[0], c[1], repr(c[2]))
            if key not in seen:
                seen.add(key)
                uniq.append(c)
        cs = uniq
        obs, v, w, st = machine.validate(s, cs)
    verd = v if which == "V" else w
    tally = {}
    reasons = {}
    evaluated = set()
    for (p, fl, inp, *_), x, o in zip(cs, verd, obs):
        x = x or "skip"
        if x.startswith("skip:undefined"):
            r = x.split(":", 2)[2] if x.count(":") >= 2 else "?"
            reasons[r] = reasons.get(r, 0) + 1
        key = ":".join(x.split(":")[:2]) if x.startswith("skip") else x
        tally[key] = tally.get(key, 0) + 1
        head = x.split(":")[0]
        if head == "violation":
            V.add(f"{x.split(':', 1)[1]}:{p!r}:flags={fl}:inputs={inp!r}",
                  {"program": p, "flags": fl, "inputs": inp, "verdict": x,
                   "observed_final": o["ev"][-1], "replay": f"bin/check {pid} --case {p!r}"})
        elif head == "drift":
            V.add_drift({"program": p, "flags": fl, "inputs": inp, "verdict": x})
        if head in ("ok", "violation", "drift"):
            evaluated.add(p)
    rc = V.finish()
    nonskip = sum(n for k, n in tally.items() if not k.startswith("skip"))
    common.write_evidence(
        pid, tier, t0,
        {
            "states": mc["distinct"], "transitions": mc["generated"],
            "traces_validated_against_impl": nonskip,
            "samples": [{"program": p, "flags": fl, "inputs": inp, "verdict": x}
                        for (p, fl, inp, *_), x in list(zip(cs, verd))[:: max(1, len(cs) // 14)][:14]],
            "evaluations": len(cs), "distinct_nontrivial": len(evaluated),
            "rule": "every program of <= 3 (quick) / 4 (thorough, 25% sample at length 4) symbols over "
                    "'12+:_,n?[|](){}λ;ƛ†XxW' on the input lists [], [3], [2,[1,2]]; structured random programs "
                    "(gen.MachineGen: if/else-chains, for, bounded while, lambdas with arity + call, map/filter/sort "
                    "lambdas with pure bodies, named functions with parameters, list literals, all eleven modifiers, "
                    "variables, register, global array, X/x) x flag sets {'',O,o,j,s,W,H,M,m}; hand-written programs; "
                    "non-trivial = distinct program text whose run stayed inside the modelled domain and was decided",
            "verdicts": tally,
            "undefined_reasons": dict(sorted(reasons.items(), key=lambda kv: -kv[1])[:40]),
            "mc": {"module": "MC_Machine", "distinct": mc["distinct"], "depth": mc["depth"],
                   "invariants": ["StatusOK", "BalancedAtEnd", "TopLevelBalanced", "ScopesMatch", "HeapOK", "FrameRule", "ProducedOnce"],
                   "alphabets": ["A", "B", "Z"]},
            "trace_tlc": {k: st[k] for k in st if k != "extra"}, "exhaustive": False,
        },
        ["VyMachine is partial on purpose: runs that leave the written rules are counted as skip:undefined, not evaluated",
         "lazily evaluated PURE lambda bodies are evaluated at once by the model (unobservable); impure map / filter "
         "lambdas make heap cells (DeferredMap) that are produced when printed or turned into text, may be copied, moved "
         "and dropped; any other use of such a value is skip:undefined",
         "reference = documents/specs/Structures.md + the named deviations listed in spec/VyMachine.tla"],
        len(V.violations),
    )
    print(f"{pid} {tier}: {len(cs)} runs, verdicts {tally}, MC {mc['distinct']} states, {time.time() - t0:.1f}s")
    return rc


def main(tier):
    return run(PID, tier, time.time(), "V", 1)
