SPECIFICATION Spec
INVARIANT Total
INVARIANT ShapePreserved
INVARIANT ScalarBroadcast
CHECK_DEADLOCK FALSE
