---- MODULE MC_Lexer ----
(***************************************************************************)
(* The lexer of VyLexer as a transition system, explored exhaustively:     *)
(* Init chooses any source text of length <= MaxLen over Alphabet (the     *)
(* environment's choice), the actions are the branches of one iteration    *)
(* of `while source:`.                                                     *)
(***************************************************************************)
EXTENDS VyLexer

CONSTANTS Alphabet, MaxLen

---------------------------------------------------------------------------
(* The same machine as a transition system (used by MC_Lexer).             *)

VARIABLES src, toks
lexvars == <<src, toks>>

LexAction(name) ==
    /\ src # <<>>
    /\ BranchOf(Head(src), Tail(src)) = name
    /\ LET n == LexStep(St(src, toks)) IN src' = n.src /\ toks' = n.toks

LexEscape == LexAction("Escape")
LexString == LexAction("String")
LexNumber == LexAction("Number")
LexTwoChar == LexAction("TwoChar")
LexVariable == LexAction("Variable")
LexComment == LexAction("Comment")
LexDigraph == LexAction("Digraph")
LexCodepageNumber == LexAction("CodepageNumber")
LexGeneral == LexAction("General")

LexNext == \/ LexEscape \/ LexString \/ LexNumber \/ LexTwoChar \/ LexVariable
           \/ LexComment \/ LexDigraph \/ LexCodepageNumber \/ LexGeneral

(* Properties of the lexer design, checked by MC_Lexer.                    *)
Progress == [][Len(src') < Len(src)]_lexvars
TokensOnlyGrow == [][Len(toks') >= Len(toks) /\ SubSeq(toks', 1, Len(toks)) = toks]_lexvars
TokenTypeOK == \A i \in 1..Len(toks) : toks[i].k \in LexKinds

RECURSIVE ConcatTok(_)
ConcatTok(ts) == IF ts = <<>> THEN <<>> ELSE Head(ts).v \o ConcatTok(Tail(ts))

AllTexts == UNION {[1..n -> Alphabet] : n \in 0..MaxLen}

VARIABLE text
LexInit == text \in AllTexts /\ src = text /\ toks = <<>>
LexNextT == LexNext /\ UNCHANGED text
LexSpec == LexInit /\ [][LexNextT]_<<src, toks, text>>

(* when done, the step machine and the run-to-completion operator agree *)
RunAgrees == src = <<>> => toks = Lex(text)

(* C05: on digit/point text no character is lost and every token is a number *)
NumberTextOnly == \A i \in 1..Len(text) : text[i] \in Digits \cup {c_dot}
NoCharLost == (src = <<>> /\ NumberTextOnly) =>
                 /\ ConcatTok(toks) = text
                 /\ \A i \in 1..Len(toks) : toks[i].k = "number"
(* documented splitting: a leading 0 stands alone; at most one point per literal *)
SplitOK == (src = <<>> /\ NumberTextOnly) =>
              \A i \in 1..Len(toks) :
                 /\ Count(toks[i].v, c_dot) <= 1
                 /\ (toks[i].v[1] = c_zero /\ Len(toks[i].v) > 1 => toks[i].v[2] = c_dot)
(* maximality: a number token is only cut where the rules force a cut *)
Maximal == (src = <<>> /\ NumberTextOnly) =>
              \A i \in 1..(Len(toks) - 1) :
                 LET a == toks[i].v  b == toks[i + 1].v
                 IN \/ a = <<c_zero>>
                    \/ (b[1] = c_dot /\ Count(a, c_dot) = 1)
====
