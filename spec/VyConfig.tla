---- MODULE VyConfig ----
(***************************************************************************)
(* The configuration tables as data (C20): the code page as extracted     *)
(* from the working tree (module VyConfigData, generated per run) and the  *)
(* byte <-> text conversions of vyxal/encoding.py over it.                 *)
(***************************************************************************)
EXTENDS VyParser, VyConfigData

(* str.index / str.find: position of the FIRST occurrence, 0 if absent *)
IndexOf(s, x) ==
    IF \E i \in 1..Len(s) : s[i] = x
    THEN CHOOSE i \in 1..Len(s) : s[i] = x /\ \A j \in 1..(i - 1) : s[j] # x
    ELSE 0

InCodepage(c) == IndexOf(Codepage, c) # 0

ToText(bytes) == [i \in 1..Len(bytes) |-> Codepage[bytes[i] + 1]]         \* vyxal_to_utf8
ToBytes(text) == [i \in 1..Len(text) |-> IndexOf(Codepage, text[i]) - 1]  \* utf8_to_vyxal

CodepageIs256 == Len(Codepage) = 256
CodepageInjective == \A i, j \in 1..Len(Codepage) : i # j => Codepage[i] # Codepage[j]

RoundTrip(bytes) == ToBytes(ToText(bytes)) = bytes

(* a key is reachable when the lexer makes exactly one general token of it *)
LexesAsOneToken(key) == Lex(key) = <<Tok("general", key)>>
(* ... and the parser makes exactly one generic statement of that token *)
ParsesAsElement(key) == ParseText(key) = <<Gen(Tok("general", key))>>
====
