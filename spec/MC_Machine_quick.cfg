SPECIFICATION Spec
CONSTANT AlphaSel = "A"
CONSTANT StepBound = 60
CONSTANT MaxToks = 3
INVARIANT StatusOK
INVARIANT BalancedAtEnd
INVARIANT TopLevelBalanced
INVARIANT ActivationsMatch
INVARIANT ScopesMatch
PROPERTY FrameRule
PROPERTY StepsGrow
CHECK_DEADLOCK FALSE
