---- MODULE VyLazyPipe ----
(***************************************************************************)
(* C14: demand-driven pipelines over an infinite source.  A stage is a     *)
(* lazily evaluated list transformation, described by how many items of    *)
(* its input it must have seen to have produced c items of output:         *)
(*    NeedCount(stage, c).                                                 *)
(* Stage kinds (one per catalogued family, parameter p):                   *)
(*   same      map, zip, prefixes, uniquify (injective source), enumerate, *)
(*             vectorised arithmetic / comparison, pairs-with-self         *)
(*   filter p  keeps one item in p                                         *)
(*   ahead     one item of look-ahead: cumulative sums, deltas, scan,      *)
(*             behead, group-consecutive                                   *)
(*   window p  overlapping groups of p        chunk p  pieces of p         *)
(*   drop p    slice from offset p            every p  every p-th item     *)
(*   pre p     p items prepended              half     interleave with a   *)
(*                                                     second infinite list*)
(* A pipeline is a sequence of stages, stage 1 next to the source.         *)
(***************************************************************************)
EXTENDS Integers, Sequences

St(kind, p) == [kind |-> kind, p |-> p]
Max0(x) == IF x < 0 THEN 0 ELSE x

NeedCount(s, c) ==
    IF c = 0 THEN 0
    ELSE CASE s.kind = "same" -> c
           [] s.kind = "filter" -> s.p * (c - 1) + 1
           [] s.kind = "ahead" -> c + 1
           [] s.kind = "window" -> c + s.p - 1
           [] s.kind = "chunk" -> s.p * c
           [] s.kind = "drop" -> c + s.p
           [] s.kind = "every" -> s.p * (c - 1) + 1
           [] s.kind = "pre" -> Max0(c - s.p)
           [] s.kind = "half" -> (c + 1) \div 2
           [] OTHER -> c

(* items needed from the source for c outputs of the whole pipeline *)
RECURSIVE Need(_, _)
Need(pipe, c) == IF pipe = <<>> THEN c
                 ELSE Need(SubSeq(pipe, 1, Len(pipe) - 1), NeedCount(pipe[Len(pipe)], c))

(* per-stage linear majorant a*c + b of NeedCount and its composition *)
LinOf(s) ==
    CASE s.kind \in {"same", "pre", "half"} -> <<1, 0>>
      [] s.kind \in {"filter", "every", "chunk"} -> <<s.p, 0>>
      [] s.kind = "ahead" -> <<1, 1>>
      [] s.kind = "window" -> <<1, s.p - 1>>
      [] s.kind = "drop" -> <<1, s.p>>
      [] OTHER -> <<1, 0>>
RECURSIVE LinBound(_)
LinBound(pipe) ==       \* <<a, b>> with Need(pipe, c) <= a*c + b
    IF pipe = <<>> THEN <<1, 0>>
    ELSE LET inner == LinBound(SubSeq(pipe, 1, Len(pipe) - 1))     \* stages nearer the source
             l == LinOf(pipe[Len(pipe)])
         IN <<inner[1] * l[1], inner[1] * l[2] + inner[2]>>

(* the bound a conforming implementation must respect: slack factor 2, +8 *)
Allowed(pipe, c) == 2 * Need(pipe, c) + 8
====
