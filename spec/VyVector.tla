---- MODULE VyVector ----
(***************************************************************************)
(* C08: the pairing structure of vectorisation (vyxal/elements.py          *)
(* vectorise, vy_zip; documents/specs/Vectorisation.md), independent of    *)
(* any particular element.  The element itself is an UNINTERPRETED leaf    *)
(* function given as a table of its results on scalars.                    *)
(*   scalar . scalar  ->  F(x, y)                                          *)
(*   list . scalar    ->  every item paired with the scalar                *)
(*   scalar . list    ->  the scalar paired with every item                *)
(*   list . list      ->  position by position, the shorter one continued  *)
(*                        with 0 (ZeroFill)                                *)
(* recursively (items may be lists again).  Values are tagged records; a   *)
(* list is [l |-> <<...>>], anything else is a scalar leaf.                *)
(***************************************************************************)
EXTENDS Integers, Sequences

IsList(v) == "l" \in DOMAIN v
Zero == [i |-> 0]
Max2(a, b) == IF a > b THEN a ELSE b
ItemOrZero(v, k) == IF k <= Len(v.l) THEN v.l[k] ELSE Zero
Missing == [missing |-> TRUE]

Lookup1(tab, x) ==
    IF \E k \in 1..Len(tab) : tab[k].x = x THEN tab[CHOOSE k \in 1..Len(tab) : tab[k].x = x].r ELSE Missing
Lookup2(tab, x, y) ==
    IF \E k \in 1..Len(tab) : tab[k].x = x /\ tab[k].y = y
    THEN tab[CHOOSE k \in 1..Len(tab) : tab[k].x = x /\ tab[k].y = y].r ELSE Missing

RECURSIVE Vec1(_, _)
Vec1(tab, a) ==
    IF IsList(a) THEN [l |-> [k \in 1..Len(a.l) |-> Vec1(tab, a.l[k])]] ELSE Lookup1(tab, a)

RECURSIVE Vec2(_, _, _)
Vec2(tab, a, b) ==
    IF ~IsList(a) /\ ~IsList(b) THEN Lookup2(tab, a, b)
    ELSE IF IsList(a) /\ IsList(b)
         THEN [l |-> [k \in 1..Max2(Len(a.l), Len(b.l)) |-> Vec2(tab, ItemOrZero(a, k), ItemOrZero(b, k))]]
    ELSE IF IsList(a) THEN [l |-> [k \in 1..Len(a.l) |-> Vec2(tab, a.l[k], b)]]
    ELSE [l |-> [k \in 1..Len(b.l) |-> Vec2(tab, a, b.l[k])]]

RECURSIVE HasMissing(_)
(* a leaf the element could not compute, or whose value is outside the number / string / list types
   (tag x: complex infinity from 0 ** -4, nan, a raw float): such a case is not evaluated;
   other symbolic values (tag y: square roots, pi ...) are compared structurally *)
HasMissing(v) == IF "missing" \in DOMAIN v \/ "x" \in DOMAIN v THEN TRUE
                 ELSE IF IsList(v) THEN \E k \in 1..Len(v.l) : HasMissing(v.l[k]) ELSE FALSE

(* shapes: a leaf is [leaf |-> TRUE], a list [s |-> shapes of its items] *)
LeafShape == [leaf |-> TRUE]
IsLeafShape(x) == "leaf" \in DOMAIN x
RECURSIVE ShapeOf(_)
ShapeOf(v) == IF IsList(v) THEN [s |-> [k \in 1..Len(v.l) |-> ShapeOf(v.l[k])]] ELSE LeafShape
RECURSIVE JoinShape(_, _)
JoinShape(x, y) ==
    IF IsLeafShape(x) /\ IsLeafShape(y) THEN LeafShape
    ELSE IF ~IsLeafShape(x) /\ ~IsLeafShape(y)
         THEN [s |-> [k \in 1..Max2(Len(x.s), Len(y.s)) |->
                        JoinShape(IF k <= Len(x.s) THEN x.s[k] ELSE LeafShape, IF k <= Len(y.s) THEN y.s[k] ELSE LeafShape)]]
    ELSE IF ~IsLeafShape(x) THEN [s |-> [k \in 1..Len(x.s) |-> JoinShape(x.s[k], LeafShape)]]
    ELSE [s |-> [k \in 1..Len(y.s) |-> JoinShape(LeafShape, y.s[k])]]
====
