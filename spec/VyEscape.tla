---- MODULE VyEscape ----
(***************************************************************************)
(* How program text reaches the generated Python (C18, C06):               *)
(*                                                                         *)
(*  1. the STRING lowering of transpile_token: the escaping loop over the  *)
(*     token value composed with CPython's scanner for a "..." literal.    *)
(*     One action Feed(c) per value character: escaper output characters   *)
(*     are pushed through the scanner states  in | esc | closed | error.   *)
(*     Safety: the scanner is never `closed` before the transpiler emits   *)
(*     its own closing quote (no text of the program leaves the literal).  *)
(*  2. identifier slots: re.sub(<class>, "", name) with the class AS       *)
(*     WRITTEN in the code (CONSTANT Keep, extracted by the harness),      *)
(*     followed by the requirement that only [A-Za-z0-9_] survives.        *)
(***************************************************************************)
EXTENDS VyLexer

(* ---- string slot ---- *)
(* escaper state: pending = TRUE when the previous value character was a backslash *)
ScanChar(st, c) ==       \* CPython short-string scanner, one emitted character
    CASE st = "in" -> IF c = c_dquote THEN "closed" ELSE IF c = c_bslash THEN "esc" ELSE IF c = c_nl THEN "error" ELSE "in"
      [] st = "esc" -> "in"
      [] OTHER -> st      \* closed / error absorb

RECURSIVE ScanAll(_, _)
ScanAll(st, cs) == IF cs = <<>> THEN st ELSE ScanAll(ScanChar(st, Head(cs)), Tail(cs))

(* what the escaping loop emits for value character c *)
EmitFor(pending, c) ==
    IF pending THEN (IF c = c_btick THEN <<c_btick>> ELSE <<c_bslash, c>>)
    ELSE IF c = c_bslash THEN <<>>                       \* waits for the next character
    ELSE IF c = c_dquote THEN <<c_bslash, c_dquote>>
    ELSE IF c = c_nl THEN <<c_bslash, 110>>
    ELSE <<c>>
PendingAfter(pending, c) == ~pending /\ c = c_bslash

RECURSIVE EscapeAll(_, _)
EscapeAll(pending, v) ==     \* the whole emitted text between the quotes
    IF v = <<>> THEN <<>>          \* a lone trailing backslash has nothing to escape and is dropped
    ELSE EmitFor(pending, Head(v)) \o EscapeAll(PendingAfter(pending, Head(v)), Tail(v))

(* decoded value of a well-formed emitted literal (simple escapes only) *)
RECURSIVE Decode(_)
Decode(cs) ==
    IF cs = <<>> THEN <<>>
    ELSE IF Head(cs) = c_bslash /\ Len(cs) >= 2
         THEN (CASE cs[2] = 110 -> <<c_nl>> [] cs[2] = c_dquote -> <<c_dquote>> [] cs[2] = c_bslash -> <<c_bslash>>
                 [] cs[2] = 39 -> <<39>> [] OTHER -> <<c_bslash, cs[2]>>) \o Decode(SubSeq(cs, 3, Len(cs)))
    ELSE <<Head(cs)>> \o Decode(Tail(cs))

(* ---- identifier slot ---- *)
IdentChars == Letters \cup Digits \cup {c_under}
Sanitise(name, Keep) ==
    LET F[i \in 0..Len(name)] == IF i = 0 THEN <<>> ELSE IF name[i] \in Keep THEN Append(F[i - 1], name[i]) ELSE F[i - 1]
    IN F[Len(name)]
IsIdentTail(s) == \A i \in 1..Len(s) : s[i] \in IdentChars
====
