INIT Init2
NEXT Next
CHECK_DEADLOCK FALSE
