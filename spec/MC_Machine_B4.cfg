SPECIFICATION Spec
CONSTANT AlphaSel = "B"
CONSTANT StepBound = 60
CONSTANT MaxToks = 4
INVARIANT StatusOK
INVARIANT BalancedAtEnd
INVARIANT TopLevelBalanced
INVARIANT ActivationsMatch
INVARIANT ScopesMatch
PROPERTY FrameRule
PROPERTY StepsGrow
CHECK_DEADLOCK FALSE
