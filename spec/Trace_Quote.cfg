INIT TInit
NEXT TNext
CONSTANTS
  Alphabet = {92}
  MaxLen = 0
CHECK_DEADLOCK FALSE
