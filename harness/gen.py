"""Program generators shared by the drivers (C01, C02, C03, C04, C12 ...).

Two kinds:
  * exhaustive(alphabet, n): every string of <= n symbols over a list of
    symbol strings (dumb enumeration; the specification decides which of
    them are well-formed);
  * Gen(rng, ...).program(depth): random programs from the structure grammar
    (documents/specs/Structures.md) over a chosen element core.
"""
from __future__ import annotations

import itertools

STRUCT_ALPHABET = ["1", "+", "f", ":", "|", "[", "]", "(", ")", "{", "}", "λ", "ƛ",
                   ";", "⟨", "⟩", "@", "v", "₌", "X", "x"]


def exhaustive(alphabet, n, min_len=0):
    for k in range(min_len, n + 1):
        for tup in itertools.product(alphabet, repeat=k):
            yield "".join(tup)


CLOSERS = "])};⟩"

MONADIC_MODS = "v⁽&~ßƒɖ"
DYADIC_MODS = "₌‡₍"
TRIADIC_MODS = "≬"


class Gen:
    """Random structured programs.

    atoms      : list of element strings usable as single statements
    niladic    : atoms that push without popping (used to seed stacks)
    structures : subset of kinds to use
    """

    def __init__(self, rng, atoms, literals=("1", "2", "3", "0", "10"), kinds=None,
                 mods=MONADIC_MODS + DYADIC_MODS + TRIADIC_MODS, ctl=True, names=("a", "b", "f", "g"),
                 strings=False):
        self.r = rng
        self.atoms = list(atoms)
        self.literals = list(literals)
        self.kinds = kinds or ["if", "for", "while", "lam", "lmap", "lfilter", "lsort",
                               "fn", "list", "mod", "var", "atom", "lit", "ctl"]
        if not ctl and "ctl" in self.kinds:
            self.kinds.remove("ctl")
        self.mods = mods
        self.names = names
        self.strings = strings
        self.defined = []

    def lit(self):
        if self.strings and self.r.random() < 0.25:
            k = self.r.random()
            if k < 0.15:
                return self.r.choice(["«ab«", "»1a»", "«x«", "»»"])
            body = "".join(self.r.choice(["a", "b", " ", "x", "\\`", "\\n", "\\\\", "|", ";", "]"])
                           for _ in range(self.r.randint(0, 3)))
            return "`" + body + "`"
        return self.r.choice(self.literals) + " "

    def atom(self):
        return self.r.choice(self.atoms)

    def seq(self, depth, lo=1, hi=4):
        return "".join(self.stmt(depth) for _ in range(self.r.randint(lo, hi)))

    def element(self, depth):
        """one parser-level element (what a modifier takes as operand)"""
        k = self.r.random()
        if depth <= 0 or k < 0.6:
            return self.atom()
        if k < 0.75:
            return self.lit()
        return self.struct(depth - 1)

    def struct(self, depth):
        kind = self.r.choice([k for k in self.kinds if k not in ("atom", "lit", "ctl", "var")])
        return self.of_kind(kind, depth)

    def stmt(self, depth):
        if depth <= 0:
            kind = self.r.choice(["atom", "atom", "lit", "var" if "var" in self.kinds else "atom"])
        else:
            kind = self.r.choice(self.kinds + ["atom", "atom", "lit", "lit"])
        return self.of_kind(kind, depth)

    def of_kind(self, kind, depth):
        r = self.r
        d = depth - 1
        if kind == "atom":
            return self.atom()
        if kind == "lit":
            return self.lit()
        if kind == "ctl":
            return r.choice("Xx")
        if kind == "var":
            n = r.choice(self.names)
            return r.choice(["→", "←"]) + n + " "
        if kind == "if":
            nb = r.choice([1, 2, 2, 3, 4])
            return "[" + "|".join(self.seq(d, 0, 3) for _ in range(nb)) + "]"
        if kind == "for":
            v = r.choice(["", "", r.choice(self.names) + "|"])
            return "(" + v + self.seq(d, 0, 3) + ")"
        if kind == "while":
            c = r.choice(["", self.seq(d, 1, 2) + "|"])
            return "{" + c + self.seq(d, 0, 3) + "}"
        if kind == "lam":
            a = r.choice(["", "", "0|", "1|", "2|", "3|"])
            return "λ" + a + self.seq(d, 0, 3) + ";"
        if kind in ("lmap", "lfilter", "lsort"):
            return {"lmap": "ƛ", "lfilter": "'", "lsort": "µ"}[kind] + self.seq(d, 0, 3) + ";"
        if kind == "fn":
            if self.defined and r.random() < 0.5:
                return "@" + r.choice(self.defined) + ";"
            name = r.choice(self.names)
            params = "".join(":" + r.choice(["1", "2", "0", r.choice(self.names)])
                             for _ in range(r.randint(0, 2)))
            self.defined.append(name)
            return "@" + name + params + "|" + self.seq(d, 0, 3) + ";"
        if kind == "list":
            n = r.randint(0, 3)
            return "⟨" + "|".join(self.seq(d, 0, 2) for _ in range(n)) + "⟩"
        if kind == "mod":
            m = r.choice(self.mods)
            k = 1 if m in MONADIC_MODS else 2 if m in DYADIC_MODS else 3
            return m + "".join(self.element(d) for _ in range(k))
        raise ValueError(kind)

    def program(self, depth=3, lo=1, hi=5):
        self.defined = []
        return self.seq(depth, lo, hi)
