---- MODULE BigInt ----
(***************************************************************************)
(* Signed integers of unbounded size over BigNat: [n |-> negative?, m |-> magnitude]. *)
(* Zero is never negative.  Rationals are [p |-> BigInt, q |-> BigNat > 0].            *)
(***************************************************************************)
EXTENDS BigNat

RECURSIVE SubC(_, _, _)
SubC(a, b, borrow) ==       \* a >= b as naturals
    IF a = <<>> THEN <<>>
    ELSE LET y == IF b = <<>> THEN 0 ELSE Head(b)
             d == Head(a) - y - borrow
         IN IF d < 0 THEN <<d + Base>> \o SubC(Tail(a), IF b = <<>> THEN <<>> ELSE Tail(b), 1)
            ELSE <<d>> \o SubC(Tail(a), IF b = <<>> THEN <<>> ELSE Tail(b), 0)
BigSub(a, b) == Norm(SubC(Norm(a), Norm(b), 0))

SB(neg, mag) == LET x == Norm(mag) IN [n |-> (neg /\ x # <<>>), m |-> x]
SFromDigits(neg, ds) == SB(neg, FromDigits(ds))
SOfInt(i) == IF i < 0 THEN SB(TRUE, BigOfNat(-i)) ELSE SB(FALSE, BigOfNat(i))
SNeg(a) == SB(~a.n, a.m)
SIsZero(a) == a.m = <<>>
SEq(a, b) == a.n = b.n /\ a.m = b.m
SAdd(a, b) ==
    IF a.n = b.n THEN SB(a.n, BigAdd(a.m, b.m))
    ELSE IF BigLeq(b.m, a.m) THEN SB(a.n, BigSub(a.m, b.m))
    ELSE SB(b.n, BigSub(b.m, a.m))
SSub(a, b) == SAdd(a, SNeg(b))
SMul(a, b) == SB(a.n # b.n, BigMul(a.m, b.m))
SMulNat(a, k) == SB(a.n, BigMul(a.m, k))
(* a <= b *)
SLeq(a, b) ==
    IF a.n /\ ~b.n THEN TRUE
    ELSE IF ~a.n /\ b.n THEN FALSE
    ELSE IF ~a.n THEN BigLeq(a.m, b.m) ELSE BigLeq(b.m, a.m)
SLt(a, b) == SLeq(a, b) /\ ~SEq(a, b)

Rat(p, q) == [p |-> p, q |-> Norm(q)]
(* a = b as rationals (denominators positive) *)
RatEqS(a, b) == SEq(SMulNat(a.p, b.q), SMulNat(b.p, a.q))
RatLeq(a, b) == SLeq(SMulNat(a.p, b.q), SMulNat(b.p, a.q))
RatLt(a, b) == RatLeq(a, b) /\ ~RatEqS(a, b)
RatAdd(a, b) == Rat(SAdd(SMulNat(a.p, b.q), SMulNat(b.p, a.q)), BigMul(a.q, b.q))
RatSub(a, b) == Rat(SSub(SMulNat(a.p, b.q), SMulNat(b.p, a.q)), BigMul(a.q, b.q))
RatMul(a, b) == Rat(SMul(a.p, b.p), BigMul(a.q, b.q))
(* a / b, b # 0: (a.p * b.q) / (a.q * |b.p|) with the sign of b moved to the numerator *)
RatDiv(a, b) == Rat(SB(a.p.n # b.p.n, BigMul(a.p.m, b.q)), BigMul(a.q, b.p.m))
RatIsInt(a) == a.q = <<1>>
RatZero == Rat(SB(FALSE, <<>>), <<1>>)
RatOne == Rat(SB(FALSE, <<1>>), <<1>>)
====
