"""C09 An element touches only the stack entries it consumes.

Spec:  MC_Machine FrameRule (every element step of the closed core, on every
       small program) + Trace_Frame (Touched per modifier, whole-stack set).
Bind:  every key of the element table and every modifier applied to elements
       is executed (its real template) on a stack of fresh sentinel objects +
       arguments; identities and values of all entries before/after are logged
       and TLC evaluates Prop_C09.
"""
from __future__ import annotations

import re
import sys
import time

from . import common, extract, runner, tlc
from .common import cps

PID = "C09"
SKIP_KEYS = {"Q"}                 # exit()
# the template process_element() builds: pop the arity, push exactly one result
PE_SHAPE = re.compile(r"^[a-z_]+(, [a-z_]+)* = pop\(stack, \d+, ctx\); stack\.append\(")
MONADIC, DYADIC, TRIADIC = "v⁽&~ßƒɖ", "₌‡₍", "≬"


def make_arg(rng, lazy_ok=True):
    import sympy
    from vyxal.LazyList import LazyList

    k = rng.random()
    if k < 0.3:
        return rng.choice([0, 1, 2, 3, 5, -1, 10, 12])
    if k < 0.4:
        return sympy.Rational(rng.randint(-7, 7), rng.choice([2, 3]))
    if k < 0.6:
        return rng.choice(["abc", "a b", "", "Hello", "12", "x", "d", "+", "_", "W", "1 2"])     # (some are programs)
    if k < 0.8:
        return [rng.randint(0, 5) for _ in range(rng.randint(0, 4))]
    if k < 0.9:
        return [[1, 2], [3, 4]][: rng.randint(0, 2)] + [rng.randint(0, 3)]
    if lazy_ok:
        return LazyList(iter([rng.randint(0, 5) for _ in range(rng.randint(0, 4))]))
    return [1, 2, 3]


def _random_key(key, opkeys):
    """elements that draw random numbers, read the clock or print type-dependent text are not compared across
    representations"""
    import vyxal.elements as E

    from . import c08, extract
    if not hasattr(_random_key, "fn"):
        elems, _ = extract.element_table()
        _random_key.fn = {e["key"]: e["fn"] for e in elems}
    for k in [key] + list(opkeys):
        fn = _random_key.fn.get(k)
        tmpl = str(E.elements.get(k, ("", 0))[0])
        if (fn and c08.uses_randomness(fn)) or "random" in tmpl or "time" in tmpl or "input(" in tmpl:
            return True
    return False


def snapshot(v):
    try:
        return c08_tagged(v)
    except Exception:  # noqa: BLE001
        return {"x": "unprojectable"}


def c08_tagged(v):
    from . import c08

    return c08.tagged(v)


DOC_ARITY = {}


def load_doc_arity():
    if not DOC_ARITY:
        for d in extract.documented():
            a = d["arity"]
            if a is not None and a.isdigit() and d["key"] not in DOC_ARITY:
                DOC_ARITY[d["key"]] = int(a)
        DOC_ARITY.pop("ÞR", None)       # documented twice with two arities (known finding of C20)
    return DOC_ARITY


def observe(case):
    kind, key, m, opkeys, seed = case
    load_doc_arity()
    import random

    import vyxal.elements as E
    from vyxal.transpile import transpile

    rng = random.Random(seed)

    def arity(k):
        tab = E.elements.get(k, ("", 1))[1]
        tab = tab if isinstance(tab, int) and tab >= 0 else 1
        doc = DOC_ARITY.get(k)
        return tab, (doc if doc is not None else tab)

    ta, ka = arity(opkeys[0]) if opkeys else (0, 0)
    tb, kb = arity(opkeys[1]) if len(opkeys) > 1 else (0, 0)
    sentinels = [[901, [902]], "sentinel", [903]]
    nargs = max(ta, tb, ka, kb, 1) + (1 if m == "ß" else 0)
    args = [make_arg(rng) for _ in range(nargs)]
    # interpreter flags that change how arguments are popped or tested (r: reversed pops, t: a list is truthy iff
    # one of its items is); the frame rule holds under each of them
    flagv = (seed // 8) % 3 if m else 0
    if m == "ß":
        args[-1] = rng.choice([0, 1, [0, 0], [], [0, 2], [[]]])
    if key == "¨ẇ" and not m:
        args[-1] = rng.choice([0, 0, 1, 2, 3])
    # an entry below the arguments that shares state with one of them, as `:` (a lazy view of the
    # original) or a variable pushed twice (the same object) leave it
    from vyxal.helpers import deep_copy
    from vyxal.LazyList import LazyList
    alias_plain = None
    variant = seed % 8          # the driver numbers the tuples of a key 0, 1, 2, ... in the low bits of the seed
    garr_view = None
    if variant == 4:
        garr_view = [7, [8, 9]]
        variant = 0
    if variant == 5:            # a list as the TOP argument (elements that choose an overload by its type)
        args[-1] = rng.choice([[12, 18, 30], [4, 6], [[1, 2], [3]], [7], []])
        variant = 0
    if variant == 6:            # a program text as the argument of the elements that run text (Ė E †), also under modifiers
        args[0 if m == "ß" else -1] = rng.choice(["d", "+", "_", "W", "1 2", ":", "$", "3 4+", "!"])
        if m == "ß":
            args[-1] = 1
        variant = 0
    if variant:
        # with a list as first argument the common case is small integers for the others (index, count, value)
        for j in range(1, len(args)):
            if rng.random() < 0.85:
                args[j] = rng.choice([0, 1, 1, 2]) if j == 1 else rng.choice([0, 1, 2, 9])
        # variant 1: lazy argument + a dup-style view below; 2: eager argument + view; 3: lazy argument, same object below
        plain = [1, 2, 3, 4][: 2 + (seed // 4) % 3]
        # (an index-like second argument inside the list, a value-like third argument that is not one of its items:
        #  a writer then really writes, and what it writes shows -- detection must not hang on the draw above)
        if len(args) > 1 and isinstance(args[1], int) and not isinstance(args[1], bool) and args[1] >= len(plain):
            args[1] %= len(plain)
        if len(args) > 2 and isinstance(args[2], int) and args[2] in plain:
            args[2] = 9
        args[0] = list(plain) if variant == 2 else LazyList(iter(list(plain)))
        sentinels = sentinels + ([args[0]] if variant == 3 else [deep_copy(args[0])])
        alias_plain = plain
    ns = runner.fresh_ns(stack=[])
    if flagv == 1:
        ns["ctx"].reverse_flag = True
    elif flagv == 2:
        ns["ctx"].truthy_lists = True
    cond = args[-1]
    # truthiness of the condition as the documentation defines it (a list: non-empty; with flag t: some item truthy)
    condtrue = bool(cond) if not isinstance(cond, list) else (any(bool(x) for x in cond) if flagv == 2 else len(cond) > 0)
    if garr_view is not None:
        # an entry below that an EARLIER element produced from interpreter state: the copy of the global array
        # that `¾` pushes (its real template is run; the entry is not looked at before the element under test runs,
        # its value is known by construction)
        ns["ctx"].global_array = [7, [8, 9]]
        exec(E.elements["¾"][0], ns)
        sentinels = sentinels + [ns["stack"].pop()]
    import copy
    # plain copies of the arguments taken before anything runs (lazy ones as their items)
    args_plain = [LazyList(iter(list(x.listify()))) if isinstance(x, LazyList) else copy.deepcopy(x) for x in args] \
        if variant == 0 and garr_view is None else list(args)
    if variant == 0 and garr_view is None:
        args = [LazyList(iter(list(x.listify()))) if isinstance(x, LazyList) else x for x in args]
    stack = sentinels + args
    text = (m or "") + "".join(opkeys)
    tmpl = E.elements.get(key, ("", 1))[0] if not m else ""
    pe = bool(PE_SHAPE.match(tmpl)) and tmpl.count("stack") == 2
    idmap = {}

    def ids(st):
        return [idmap.setdefault(id(x), len(idmap) + 1) for x in st]

    ev = {"key": cps(key), "opkey": cps(opkeys[0]) if opkeys else [], "m": ord(m) if m else 0, "ka": ka, "kb": kb,
          "ids0": ids(stack),
          "vals0": [snapshot(x) for x in sentinels[:3]] + ([c08_tagged(alias_plain)] if alias_plain is not None else [])
                   + ([c08_tagged(garr_view)] if garr_view is not None else []) + [{"a": 1}] * nargs,
          "ta": ta, "tb": tb, "pe": pe, "condtrue": bool(condtrue), "flagv": flagv,
          "topint": args[-1] if isinstance(args[-1], int) and not isinstance(args[-1], bool) and abs(args[-1]) < 1000 else -1,
          "strarg": isinstance(args[-1], str), "raised": "", "ids1": [], "vals1": []}
    keep_alive = list(stack)  # so that ids are not recycled
    try:
        code = transpile(text) if m else E.elements[key][0]
        ns["stack"][:] = stack
        stack = ns["stack"]
        with runner.CaptureStdout():
            common.with_alarm(lambda _: exec(code, ns), None, 5)
        st = ns["stack"]
        ev["ids1"] = ids(st)
        n0 = len(sentinels)
        ev["vals1"] = [snapshot(x) for x in st[:n0]] + [{"a": 1}] * max(0, len(st) - n0)
        if len(ev["vals1"]) < len(ev["vals0"]):
            pass
    except common.CaseTimeout:
        ev["raised"] = "hang"
    except SystemExit:
        ev["raised"] = "SystemExit"
    except BaseException as e:  # noqa: BLE001
        ev["raised"] = type(e).__name__
    # the same construct with every list argument given the OTHER way (eager <-> lazy): a list is what it denotes,
    # so the stack it leaves -- how many entries, which values -- must be the same
    ev["twin"] = []
    ev["twinok"] = False
    has_list = any(isinstance(x, (list, LazyList)) for x in args)
    if has_list and not ev["raised"] and variant == 0 and garr_view is None and not _random_key(key, opkeys):
        try:
            def flip(x):
                if isinstance(x, LazyList):
                    return list(x.listify()) if False else [flip(y) for y in list(x)]
                if isinstance(x, list):
                    return LazyList(iter([y for y in x]))
                return x
            args2 = [flip(x) for x in args_plain]
            ns2 = runner.fresh_ns(stack=[])
            if flagv == 1:
                ns2["ctx"].reverse_flag = True
            elif flagv == 2:
                ns2["ctx"].truthy_lists = True
            ns2["stack"][:] = [[901, [902]], "sentinel", [903]] + args2
            with runner.CaptureStdout():
                common.with_alarm(lambda _: exec(code, ns2), None, 5)
            ev["twin"] = [snapshot(x) for x in ns2["stack"]]
            ev["full1"] = [snapshot(x) for x in st]
            ev["twinok"] = True
        except BaseException:  # noqa: BLE001  the other representation is inapplicable: nothing to compare
            ev["twin"], ev["twinok"] = [], False
    del keep_alive
    # pad so that SubSeq comparisons are well defined
    return ev


def main(tier):
    t0 = time.time()
    rng = common.rng(9)
    V = common.Verdicts(PID)
    common.import_repo()
    elems, mods = extract.element_table()
    keys = [k for k in dict.fromkeys(e["key"] for e in elems) if k not in SKIP_KEYS]
    per = 6 if tier == "quick" else 42
    cs = []
    for k in keys:
        for i in range(per):
            cs.append(("elem", k, "", [k], rng.randint(0, 10 ** 8) * 8 + (i + 1) % 6))
    mper = 1 if tier == "quick" else 6
    for m in MONADIC + DYADIC + TRIADIC:
        n = 1 if m in MONADIC else 2 if m in DYADIC else 3
        for k in keys:
            for i in range(mper):
                ops = [k] + [rng.choice(["+", "›", "d", "N", ":", "W", "_"]) for _ in range(n - 1)]
                if i % 2 and n > 1:
                    ops = ops[1:] + ops[:1]
                cs.append(("mod", k, m, ops, rng.randint(0, 10 ** 8) * 8 + (i % 5 if mper > 1 else rng.randint(0, 4))))
    for m in [""] + list(MONADIC + DYADIC + TRIADIC):
        for k in ("Ė", "E"):
            n = 0 if not m else 1 if m in MONADIC else 2 if m in DYADIC else 3
            for j in range(4 if tier == "quick" else 20):
                ops = [k] + [rng.choice(["+", "›", "d", "_"]) for _ in range(max(n - 1, 0))]
                cs.append(("mod" if m else "elem", k, m, ops, rng.randint(0, 10 ** 8) * 8 + 6))
    with common.Scratch(PID) as s:
        mc = tlc.model_check(s, "MC_Machine", cfg="MC_Machine_quick", workers=16, xss="512m", xmx="16g", timeout=3000)
        if not mc["ok"]:
            V.add("spec:MC_Machine:" + str(mc["violated"]), {"trace": tlc.counterexample(mc["out"])})
        obs = common.pool_map(observe, cs, initfn=common.import_repo, hard_timeout=30,
                              on_timeout=lambda c: {"key": cps(c[1]), "opkey": [], "m": 0, "ka": 0, "kb": 0, "ta": 0, "tb": 0, "pe": False, "condtrue": True, "flagv": 0, "ids0": [], "vals0": [], "topint": -1,
                                                    "strarg": False, "raised": "hang", "ids1": [], "vals1": [], "twin": [], "twinok": False})
        verdicts, st = tlc.validate(s, "Trace_Frame", obs, cfg="Trace_Frame.cfg", chunk=3000)
    tally = {}
    okkeys = set()
    for c, v in zip(cs, verdicts):
        key = v if not v.startswith("skip:inapplicable") else "skip:inapplicable"
        tally[key] = tally.get(key, 0) + 1
        if v == "ok":
            okkeys.add((c[2], c[1]))
        if v.startswith("violation"):
            V.add(f"{c[2]}{''.join(c[3])}", {"construct": c[2] + "".join(c[3]), "seed": c[4], "verdict": v})
    rc = V.finish()
    common.write_evidence(
        PID, tier, t0,
        {
            "states": mc["distinct"], "transitions": mc["generated"],
            "traces_validated_against_impl": tally.get("ok", 0) + sum(n for k, n in tally.items() if k.startswith("violation")),
            "samples": [{"construct": c[2] + "".join(c[3]), "verdict": v} for c, v in list(zip(cs, verdicts))[:: max(1, len(cs) // 14)][:14]],
            "evaluations": len(cs), "distinct_nontrivial": len(okkeys),
            "rule": f"every key of the element table ({len(keys)}; Q skipped) x {per} argument tuples of its table arity over integers, "
                    f"rationals, strings, nested and lazy lists; every modifier x every key x {mper}; on top of 3 sentinel objects; "
                    "non-trivial = distinct (modifier, key) whose run completed and was judged",
            "verdicts": tally, "mc": {"module": "MC_Machine", "property": "FrameRule", "distinct": mc["distinct"]},
            "trace_tlc": {k: st[k] for k in st if k != "extra"}, "exhaustive": False,
        },
        ["table arity is read from the runtime element table; a Python exception for an argument tuple = inapplicable (counted)",
         "identity = id() of the entries, the stack is kept alive so that ids are not recycled",
         "whole-stack operations are the set in spec/Trace_Frame.tla"],
        len(V.violations),
    )
    sys.stdout.write("\n")       # (text run by Ė / E may have left the line unfinished)
    print(f"C09 {tier}: {len(cs)} runs, verdicts {tally}, {len(okkeys)} constructs judged, {time.time() - t0:.1f}s")
    return rc
