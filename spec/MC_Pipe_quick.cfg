SPECIFICATION Spec
CONSTANTS
  MaxStages = 2
  MaxN = 12
INVARIANT NeverOverPulls
INVARIANT DemandIsComposed
INVARIANT LinearBound
PROPERTY Terminates
CHECK_DEADLOCK FALSE
