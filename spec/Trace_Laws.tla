---- MODULE Trace_Laws ----
(***************************************************************************)
(* C16 on the implementation: one event per call of a list builtin:        *)
(*   law, a, b (flat integer lists as integer sequences), x (scalar        *)
(*   argument or 0), out (tagged forced result), err                       *)
(* Prop_C16: Law(law, a, b, x, out).                                       *)
(***************************************************************************)
EXTENDS VyListLaws, Json, IOUtils, TLC, TLCExt

BatchFile == JsonDeserialize(IOEnv.TRACE_FILE)
ASSUME TLCSet(7, BatchFile)
Batch == TLCGet(7)

VARIABLES tid, phase
T == Batch[tid]

CallVerdict(c) ==
    IF c.err # "" THEN "violation:" \o c.law \o "-raised-" \o c.err
    ELSE IF ~Law(c.law, c.a, c.b, c.x, c.out) THEN "violation:" \o c.law
    ELSE "ok"

RECURSIVE FirstBad(_, _)
FirstBad(cs, i) == IF i > Len(cs) THEN "ok"
                   ELSE IF CallVerdict(cs[i]) # "ok" THEN CallVerdict(cs[i]) ELSE FirstBad(cs, i + 1)

Init == tid \in 1..Len(Batch) /\ phase = "start"
Decide == /\ phase = "start" /\ phase' = "done" /\ tid' = tid
          /\ PrintT(<<"V", tid, FirstBad(T.calls, 1)>>)
Next == Decide
====
