"""C04 Omitting trailing closers never changes the parse.

Spec:  MC_Parser (TruncationInvariant over every token sequence <= MaxToks
       of the 21-token structural alphabet, on the reference parser).
Bind:  the same programs (as text) plus random deep programs are parsed by
       the real tokenise/parse, full and truncated; Trace_Parse evaluates
       Prop_C04 on the observed trees and checks conformance of the tree.
"""
from __future__ import annotations

import time

from . import common, gen, project, tlc
from .common import cps

PID = "C04"


def trailing(text):
    """candidate truncation lengths at text level: closers and a closing back-quote"""
    n = 0
    while n < len(text) and text[len(text) - 1 - n] in gen.CLOSERS + "`«»":
        n += 1
    return n


def observe(case):
    a, k = case[:2]
    vflag = len(case) > 2 and case[2]
    b = a[: len(a) - k]
    _, ta, ea = project.parse_text(a, vflag)
    _, tb, eb = project.parse_text(b, vflag)
    return {"op": "trunc", "a": cps(a), "b": cps(b), "k": k, "vflag": bool(vflag),
            "ta": ta or [], "tb": tb or [], "ea": ea or "", "eb": eb or ""}


def cases(tier, rng):
    out = []
    n = 4 if tier == "quick" else 5
    for p in gen.exhaustive(gen.STRUCT_ALPHABET, n, 1):
        t = trailing(p)
        for k in range(1, t + 1):
            out.append((p, k))
    # programs with string literals / digraphs / escapes ending in closers
    extra = ["`ab`", "[`a`", "λ`a;`;", "(k)", "‛a]", "[1|`x`]", "⟨`a`|`b`⟩", "@f:a|`q`;",
             "\\]", "[\\]]", "«ab«]", "»ab»)", "⁺]", "⁺])", "#]\n]", "[#]", "→a;", "[→a]",
             "λ2|`;`;", "[1|2|3|4]", "{1|2}", "(a|b)", "ƛµ';;;", "v[1]", "₌[1][2]", "≬[1](2){3}",
             "@f:1:2|⟨1|2⟩;", "[(({⟨λƛ'µ@f|1;;;;⟩}))]",
             "[1|«ab«]", "(»12»)", "λ«x«;", "⟨»a»⟩", "`a\\``", "`a\\n`", "[1|`say \\`hi\\``]", "λ`x\\\\`;",
             "`\\``", "[`a\\`b`]", "{`\\n`}", "⟨`a`|`b\\``⟩", "@f|`\\``;", "«a«", "»a»", "‛ab", "[‛a`]"]
    for p in extra:
        for k in range(1, trailing(p) + 1):
            out.append((p, k))
    # LAST TOKEN x closing context: every kind of token text right before the closers that get dropped
    from . import extract
    elems, _mods = extract.element_table()
    last = ["0", "0.", "0°", "5.", ".5", ".", "°", "1.5", "10", "00", "0.0", "1°2", "5°", "\n", " ", "1\n", "+\n", "\n\n",
            "`a`", "`a", "‛ab", "‛a", "\\a", "«a«", "»a»", "«a\\«", "»\\»", "«\\«", "»a\\»", "`a\\``", "«a\\", "»\\", "⁺a", "#c\n", "→a", "←a", "→", "k", "∆", "ø", "Þ", "¨",
            "v+", "₌++", "≬+++", "ß+", "&+", "~+", "⁽+", "ƒ+", "ɖ+", "‡++", "₍++", "¨=+", "x", "X", "n"]
    last += list(dict.fromkeys(e["key"] for e in elems))
    for tok in dict.fromkeys(last):
        for ctx in ("[1 □]", "λ□;", "⟨1|□⟩", "(□)", "{1|□}", "[(λ⟨□⟩;)]", "@f|□;", "ƛ□;", "'1 □;", "[1|2 □]"):
            p = ctx.replace("□", tok)
            for k in range(1, trailing(p) + 1):
                out.append((p, k))
    g = gen.Gen(rng, atoms=list("+-*:_$W!^=<>LhtJwf∑ṘUsɾʁn?,…"), strings=True)
    nr = 1500 if tier == "quick" else 30000
    for _ in range(nr):
        p = g.program(depth=4)
        t = trailing(p)
        if t == 0:
            p = g.of_kind(rng.choice(["if", "for", "while", "lam", "lmap", "fn", "list"]), 4)
            t = trailing(p)
        for k in range(1, t + 1):
            out.append((p, k))
    # flag V (one-character variable names): every program above that mentions a variable, and the
    # last-token family with one- and two-letter variables
    vcases = [c for c in out if "→" in c[0] or "←" in c[0]]
    for tok in ("→x", "←x", "→xy", "←xy", "→", "←", "→x1", "←_", "→x→y", "1→x"):
        for ctx in ("[1 □]", "λ□;", "⟨1|□⟩", "(□)", "{1|□}", "[(λ⟨□⟩;)]", "@f|□;", "ƛ□;", "5(λn□;)"):
            p = ctx.replace("□", tok)
            for k in range(1, trailing(p) + 1):
                vcases.append((p, k))
    out += [(p, k, True) for p, k in vcases]
    # de-duplicate, keep order
    seen = set()
    res = []
    for c in out:
        if c not in seen:
            seen.add(c)
            res.append(c)
    return res


def main(tier):
    t0 = time.time()
    rng = common.rng(4)
    V = common.Verdicts(PID)
    with common.Scratch(PID) as s:
        mc = tlc.model_check(
            s, "MC_Parser", cfg="MC_Parser_quick" if tier == "quick" else "MC_Parser",
            workers=16)
        if not mc["ok"]:
            V.add("spec:MC_Parser:" + str(mc["violated"]),
                  {"what": "design-level check failed", "trace": tlc.counterexample(mc["out"])})
        cs = cases(tier, rng)
        common.import_repo()
        obs = common.pool_map(observe, cs, initfn=common.import_repo)
        verdicts, st = tlc.validate(s, "Trace_Parse", obs, cfg="Trace_Parse.cfg", chunk=4000)
    tally = {}
    nontrivial = set()
    for (a, k, *_), v in zip(cs, verdicts):
        key = v.split(":")[0]
        tally[v] = tally.get(v, 0) + 1
        if key == "violation":
            V.add(f"trunc:{a!r}:k={k}", {"program": a, "dropped": k, "verdict": v,
                                       "replay": f"bin/check C04 --case {a!r} {k}"})
        elif key in ("drift", "specviolation"):
            V.add_drift({"program": a, "dropped": k, "verdict": v})
        if key in ("ok", "violation", "drift"):
            nontrivial.add(a)
    rc = V.finish()
    common.write_evidence(
        PID, tier, t0,
        {
            "states": mc["distinct"], "transitions": mc["generated"],
            "traces_validated_against_impl": sum(v for k, v in tally.items() if not k.startswith("skip")),
            "samples": [{"program": a, "dropped": k, "verdict": v} for (a, k, *_), v in
                        list(zip(cs, verdicts))[:: max(1, len(cs) // 12)][:12]],
            "evaluations": len(cs), "distinct_nontrivial": len(nontrivial),
            "rule": "every string <= n symbols over the 21-symbol structural alphabet that ends in "
                    "closers, each with 1..all trailing closers dropped, plus hand-picked literal/digraph "
                    "cases and random depth-4 programs; non-trivial = distinct well-formed program "
                    "(per the specification's WellFormedToks) whose truncation was decided",
            "verdicts": tally, "mc": {"module": "MC_Parser", "distinct": mc["distinct"], "depth": mc["depth"],
                                      "invariant": "TruncationInvariant", "wall_s": round(mc["wall"], 1)},
            "trace_tlc": st, "exhaustive": False,
        },
        ["the reference parser in spec/VyParser.tla (token kind decides syntax) is the documented grammar",
         "well-formed = spec WellFormedToks (headers per Structures.md, no parser error)",
         "text-level truncation is accepted only when the spec's lexer confirms it removed closer tokens only"],
        len(V.violations),
    )
    print(f"C04 {tier}: {len(cs)} truncations, verdicts {tally}, MC {mc['distinct']} states, "
          f"{time.time() - t0:.1f}s")
    return rc
