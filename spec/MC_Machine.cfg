SPECIFICATION Spec
CONSTANT AlphaSel = "A"
CONSTANT StepBound = 60
CONSTANT MaxToks = 4
INVARIANT StatusOK
INVARIANT BalancedAtEnd
INVARIANT TopLevelBalanced
INVARIANT ActivationsMatch
INVARIANT ScopesMatch
INVARIANT HeapOK
PROPERTY FrameRule
PROPERTY ProducedOnce
PROPERTY StepsGrow
CHECK_DEADLOCK FALSE
