"""Running Vyxal programs on the implementation under test and projecting
values onto the specification's representation."""
from __future__ import annotations

import io
import os
import sys
import types


def fresh_ns(stack=None, ctx=None):
    """One namespace dict, as execute_vyxal's exec(code, locals() | globals())."""
    import vyxal.main as M
    from vyxal.context import Context

    ns = dict(vars(M))
    c = ctx or Context()
    st = stack if stack is not None else []
    c.stacks.append(st)
    ns.update(stack=st, ctx=c)
    return ns


def exec_text(text, inputs=(), dict_compress=True, ctx=None, stack=None):
    """transpile + exec like execute_vyxal, return (stack, ctx, error)."""
    from vyxal.transpile import transpile

    ns = fresh_ns(stack, ctx)
    c = ns["ctx"]
    c.inputs[0][0] = list(inputs)
    c.dictionary_compression = dict_compress
    try:
        code = transpile(text, dict_compress)
    except Exception as e:  # noqa: BLE001
        return None, c, "transpile:" + type(e).__name__
    try:
        exec(code, ns)
    except (Exception, SystemExit) as e:  # noqa: BLE001  (the Q element exits: an error of the run, not of the harness)
        return ns["stack"], c, "exec:" + type(e).__name__ + ":" + str(e)[:80]
    return ns["stack"], c, None


def digits_of(n: int):
    return [int(ch) for ch in str(abs(int(n)))]


def num_json(v):
    """exact projection of a numeric value: type class, sign, num/den digits"""
    import sympy

    if isinstance(v, bool):
        return {"ty": "other:bool", "neg": False, "num": [0], "den": [1]}
    if isinstance(v, int):
        return {"ty": "int", "neg": v < 0, "num": digits_of(v), "den": [1]}
    if isinstance(v, sympy.Rational):
        return {"ty": "rational", "neg": bool(v.p < 0), "num": digits_of(v.p), "den": digits_of(v.q)}
    if isinstance(v, (float, sympy.Float)):
        return {"ty": "float", "neg": False, "num": [0], "den": [1]}
    return {"ty": "other:" + type(v).__name__, "neg": False, "num": [0], "den": [1]}


class TooBig(Exception):
    """the value is nested or long beyond what the projection carries: the case is not evaluated"""


def value_json(v, depth=0, force=True, limit=200):
    """general projection of a Vyxal value (field-tagged records)"""
    import sympy
    from vyxal.LazyList import LazyList

    if isinstance(v, bool):
        return {"x": "bool"}
    if isinstance(v, int):
        if abs(v) < 2 ** 31:
            return {"i": v}
        return {"b": digits_of(v), "neg": v < 0}
    if isinstance(v, sympy.Integer):
        return value_json(int(v))
    if isinstance(v, sympy.Rational):
        if abs(v.p) < 2 ** 31 and v.q < 2 ** 31:
            return {"q": [int(v.p), int(v.q)]}
        return {"qb": [digits_of(v.p), digits_of(v.q)], "neg": bool(v.p < 0)}
    if isinstance(v, str):
        return {"s": [ord(c) for c in v]}
    if isinstance(v, list):
        if depth > 12 or len(v) > limit:
            raise TooBig()
        return {"l": [value_json(x, depth + 1, force, limit) for x in v]}
    if isinstance(v, LazyList):
        if not force:
            return {"z": 1}
        if depth > 12:
            raise TooBig()
        out = []
        it = iter(v)
        for _ in range(limit + 1):
            try:
                out.append(next(it))
            except StopIteration:
                break
        if len(out) > limit:
            raise TooBig()
        return {"l": [value_json(x, depth + 1, force, limit) for x in out]}
    if isinstance(v, types.FunctionType):
        return {"f": getattr(v, "arity", -1) if isinstance(getattr(v, "arity", -1), int) else -1}
    return {"x": type(v).__name__}


class CaptureStdout:
    """fd-level capture of host stdout (catches print and anything below it)."""

    def __enter__(self):
        import tempfile

        sys.stdout.flush()
        self._saved = os.dup(1)
        self._tmp = tempfile.TemporaryFile(mode="w+b")
        os.dup2(self._tmp.fileno(), 1)
        self._pyout = sys.stdout
        sys.stdout = io.TextIOWrapper(os.fdopen(os.dup(1), "wb"), encoding="utf-8", errors="replace",
                                      write_through=True)
        self.text = ""
        self.marked = None
        return self

    def mark(self):
        """remember how much has been written so far (text_at_mark after the capture ends)"""
        try:
            sys.stdout.flush()
        except Exception:  # noqa: BLE001
            pass
        self.marked = os.fstat(self._tmp.fileno()).st_size

    def __exit__(self, *a):
        try:
            sys.stdout.flush()
            sys.stdout.close()
        except Exception:  # noqa: BLE001
            pass
        sys.stdout = self._pyout
        os.dup2(self._saved, 1)
        os.close(self._saved)
        self._tmp.seek(0)
        raw = self._tmp.read()
        self.text = raw.decode("utf-8", errors="replace")
        self.text_at_mark = self.text if self.marked is None else raw[:self.marked].decode("utf-8", errors="replace")
        self._tmp.close()
        return False
