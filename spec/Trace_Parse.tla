---- MODULE Trace_Parse ----
(***************************************************************************)
(* Validation of lexer/parser observations of the implementation.          *)
(* Every trace of the batch is its own behaviour (tid chosen in Init).     *)
(*                                                                         *)
(*  op = "trunc" (C04): a, b texts, b = a with trailing closers dropped;   *)
(*        ta, tb the trees the implementation built (or ea/eb errors).     *)
(*  op = "lit"   (C03): a, b texts that differ only in one literal         *)
(*        payload of the same kind (built by the harness from a context);  *)
(*        ta, tb observed trees.                                           *)
(*  op = "parse" : a, toka, ta -- plain conformance of tokens and tree.    *)
(*                                                                         *)
(* Verdicts:  ok | skip:<why> | drift:<why> | violation:<clause>           *)
(* The Prop_* predicates mention observed fields only.                     *)
(***************************************************************************)
EXTENDS VyParser, Json, IOUtils, TLCExt

BatchFile == JsonDeserialize(IOEnv.TRACE_FILE)
ASSUME TLCSet(7, BatchFile)
Batch == TLCGet(7)

VARIABLES tid, phase, verdict
tvars == <<tid, phase, verdict>>

T == Batch[tid]

Has(r, f) == f \in DOMAIN r

---------------------------------------------------------------------------
IsTruncation(A, B) ==
    /\ Len(B) <= Len(A)
    /\ B = SubSeq(A, 1, Len(B))
    /\ \A i \in (Len(B) + 1)..Len(A) : IsCloser(A[i])

(* C04 on observed fields: both parses succeeded and built the same tree *)
Prop_C04(t) == t.ea = "" /\ t.eb = "" /\ t.ta = t.tb

(* flag V: variable names are single characters *)
LexOf(t, x) == IF Has(t, "vflag") /\ t.vflag THEN LexV(x) ELSE Lex(x)

VerdictTrunc(t) ==
    LET A == LexOf(t, t.a)
        B == LexOf(t, t.b)
        SA == Parse(A, "none")
    IN IF ~IsTruncation(A, B) THEN "skip:not-a-truncation"
       ELSE IF ~WellFormedToks(A) THEN "skip:not-wellformed"
       ELSE IF ~Prop_C04(t) THEN "violation:truncation-changes-parse"
       ELSE IF Parse(B, "none") # SA THEN "specviolation:truncation"
       ELSE IF t.ta # SA THEN "drift:tree"
       ELSE "ok"

---------------------------------------------------------------------------
(* C03 on observed fields: same shape once literal payloads are abstracted *)
Prop_C03(t) == t.ea = "" /\ t.eb = "" /\ ShapeSeq(t.ta) = ShapeSeq(t.tb)
(* ... and the same emitted Python once its constants are abstracted (ca, cb: the harness's projection
   of transpile(a), transpile(b)) -- "changes only the value that one literal pushes" *)
Prop_C03_Code(t) == Has(t, "ca") => t.ca = t.cb

VerdictLit(t) ==
    LET SA == ParseText(t.a)
        SB == ParseText(t.b)
    IN IF AnyError(SA) \/ AnyError(SB) THEN "skip:not-wellformed"
       ELSE IF ShapeSeq(SA) # ShapeSeq(SB) THEN "skip:spec-shapes-differ"
       ELSE IF ~Prop_C03(t) THEN "violation:payload-changes-shape"
       ELSE IF ~Prop_C03_Code(t) THEN "violation:payload-changes-emitted-code"
       ELSE IF t.ta # SA \/ t.tb # SB THEN "drift:tree"
       ELSE "ok"

VerdictParse(t) ==
    LET A == Lex(t.a)
    IN IF t.ea # "" THEN "drift:raised"
       ELSE IF t.toka # A THEN "drift:tokens"
       ELSE IF t.ta # Parse(A, "none") THEN "drift:tree"
       ELSE "ok"

Verdict(t) ==
    CASE t.op = "trunc" -> VerdictTrunc(t)
      [] t.op = "lit" -> VerdictLit(t)
      [] OTHER -> VerdictParse(t)

---------------------------------------------------------------------------
Init == tid \in 1..Len(Batch) /\ phase = "start" /\ verdict = ""

Decide ==
    /\ phase = "start"
    /\ verdict' = Verdict(T)
    /\ phase' = "done"
    /\ tid' = tid
    /\ PrintT(<<"V", tid, verdict'>>)

Next == Decide
Spec == Init /\ [][Next]_tvars
====
