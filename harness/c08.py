"""C08 Vectorising elements act element-wise.

Spec:  MC_Vector (the pairing structure VyVector.Vec2 is total and shape
       preserving for every pair of argument shapes, with a free leaf function).
Bind:  every documented-vectorising element of data/vectorising.json is called
       on flat and nested lists (eager and lazy) and, separately, on every
       scalar leaf / leaf pair; TLC rebuilds the expected result from the leaf
       results with the specification's pairing structure and compares.
"""
from __future__ import annotations

import json
import os
import time

from . import common, extract, runner, tlc

PID = "C08"


# (∆Ŀ stays excluded: with a list on top it is the LCM OF the list, not an element-wise operation; ∆f has a function
#  of its own since the repair of its vectorisation)
TEMPLATE_KEYS = {"d": ["int", "rat"], "Ḋ": ["int"], "Ė": ["int", "rat"]}


def table():
    with open(os.path.join(common.VERIF, "data", "vectorising.json"), encoding="utf-8") as f:
        t = json.load(f)
    # the documented-vectorising elements whose table entry is a hand-written template are run through that template
    for e in list(t["excluded"]):
        if e["key"] in TEMPLATE_KEYS and "hand-written template" in e["reason"]:
            t["excluded"].remove(e)
            t["included"].append({"key": e["key"], "arity": e.get("arity", 2 if e["key"] in ("Ḋ", "∆Ŀ") else 1),
                                  "kinds": TEMPLATE_KEYS[e["key"]], "name": "(template)", "nostr": True})
    return t


def tagged(v, depth=0):
    import sympy
    from vyxal.LazyList import LazyList
    import types

    if isinstance(v, bool):
        return {"x": "bool"}
    if isinstance(v, int):
        return {"i": v} if abs(v) < 2 ** 31 else {"b": str(v)}
    if isinstance(v, sympy.Integer):
        return tagged(int(v))
    if isinstance(v, sympy.Rational):
        return {"q": [str(v.p), str(v.q)]}
    if isinstance(v, str):
        return {"s": [ord(c) for c in v]}
    if isinstance(v, (list, LazyList)):
        if depth > 8:
            raise runner.TooBig()
        if isinstance(v, list):
            items = v
            if len(items) > 400:
                raise runner.TooBig()
        else:
            items = []
            for x in v:          # never listify(): the list may be infinite
                items.append(x)
                if len(items) > 400:
                    raise runner.TooBig()
        return {"l": [tagged(x, depth + 1) for x in items]}
    if isinstance(v, types.FunctionType):
        return {"f": 1}
    if isinstance(v, sympy.Basic):
        if v in (sympy.zoo, sympy.nan, sympy.oo, -sympy.oo) or v.has(sympy.zoo, sympy.nan, sympy.oo):
            return {"x": "non-finite"}
        return {"y": str(v)[:60]}
    return {"x": type(v).__name__}


def leaves(v, acc):
    if isinstance(v, list):
        for x in v:
            leaves(x, acc)
    else:
        acc.append(v)
    return acc


def to_arg(v, lazy):
    from vyxal.LazyList import LazyList

    if isinstance(v, list):
        items = [to_arg(x, lazy) for x in v]
        return LazyList(iter(items)) if lazy else items
    return v


def call(fn, args):
    """the simplified result: vyxalify is what every value undergoes when it is produced inside a list"""
    from vyxal.context import Context
    from vyxal.helpers import vyxalify

    return common.with_alarm(lambda _: tagged(vyxalify(fn(*args, ctx=Context()))), None, 5)


def run_predecessor(pkey):
    """another element used just before in the same process (its result is dropped): what an element does to a
    list must not depend on what ran earlier"""
    import vyxal.elements as E
    from vyxal.context import Context

    try:
        fn = getattr(E, case_fn(pkey))
        n = E.elements[pkey][1]
        args = [[4, 6, 9], 2, 1][: n if isinstance(n, int) and n > 0 else 1]
        common.with_alarm(lambda _: tagged(fn(*args, ctx=Context())), None, 3)
    except BaseException:  # noqa: BLE001
        pass


def observe(case):
    key, ar, a, b, lazy = case[:5]
    if len(case) > 5:
        run_predecessor(case[5])
    import vyxal.elements as E

    name = case_fn(key)
    fn = getattr(E, name) if name else template_fn(key)
    la = leaves(a, []) if isinstance(a, list) else [a]
    lb = (leaves(b, []) if isinstance(b, list) else [b]) if ar == 2 else []
    tab = []

    def uniq(xs):
        out = []
        for x in xs:
            if not any(type(x) is type(y) and x == y for y in out):
                out.append(x)
        return out

    if ar == 1:
        for x in uniq(la):
            try:
                tab.append({"x": tagged(x), "r": call(fn, [x])})
            except BaseException:  # noqa: BLE001  leaf call fails -> the case is not evaluated
                pass
    else:
        for x in uniq(la + [0]):
            for y in uniq(lb + [0]):
                try:
                    tab.append({"x": tagged(x), "y": tagged(y), "r": call(fn, [x, y])})
                except BaseException:  # noqa: BLE001
                    pass
    ev = {"ar": ar, "a": tagged(a), "b": tagged(b) if ar == 2 else {"i": 0}, "tab": tab, "res": {"i": 0}, "err": ""}
    try:
        if lazy == "coupled":
            # the second operand is the duplicate `:` makes of the first (a copy that reads through the original)
            from vyxal.helpers import deep_copy

            la_ = to_arg(a, True)
            ev["res"] = call(fn, [la_, deep_copy(la_)])
        else:
            ev["res"] = call(fn, [to_arg(a, lazy)] + ([to_arg(b, lazy)] if ar == 2 else []))
    except runner.TooBig:
        ev["tab"] = []  # not evaluated
    except common.CaseTimeout:
        ev["err"] = "hang"
    except Exception as e:  # noqa: BLE001
        ev["err"] = type(e).__name__
    return ev


_FN = {}


def template_fn(key):
    """an element whose table entry is a hand-written template (no single function): the template itself is run
    on a stack holding the arguments; its result is what it leaves on top"""
    import vyxal.elements as E

    code = E.elements[key][0]

    def run(*args, ctx=None):
        ns = runner.fresh_ns(stack=list(args), ctx=ctx)
        n0 = len(args)
        exec(code, ns)
        st = ns["stack"]
        if len(st) != 1:
            raise ValueError(f"template left {len(st)} values for {n0} arguments")
        return st[0]

    return run


def case_fn(key):
    if not _FN:
        elems, _ = extract.element_table()
        for e in elems:
            if e["fn"]:
                _FN[e["key"]] = e["fn"]
            elif e["key"] in TEMPLATE_KEYS:
                _FN[e["key"]] = None
    return _FN[key]


_RANDOM = {}


def uses_randomness(name, depth=3):
    """static: the element's function (or something it calls, to `depth`) draws random numbers or reads input --
    its scalar results are then not a function of the arguments and string leaves are not offered to it"""
    import inspect
    import re
    import types
    import vyxal.elements as E
    import vyxal.helpers as H

    if name in _RANDOM:
        return _RANDOM[name]
    _RANDOM[name] = False
    fn = getattr(E, name, None) or getattr(H, name, None)
    res = False
    if isinstance(fn, types.FunctionType):
        try:
            src = inspect.getsource(fn)
        except (OSError, TypeError):
            src = ""
        if re.search(r"\brandom\.|\binput\(|\bshuffle\b|time\.|datetime", src):
            res = True
        elif depth > 0:
            for callee in set(re.findall(r"\b([A-Za-z_][A-Za-z0-9_]*)\(", src)):
                if callee != name and (hasattr(E, callee) or hasattr(H, callee)) and uses_randomness(callee, depth - 1):
                    res = True
                    break
    _RANDOM[name] = res
    return res


def scalars(rng, kind):
    import sympy

    if kind == "int":
        return rng.choice([0, 1, 2, 3, -1, -2, 5, 7, 10, 12])
    if kind == "rat":
        return sympy.Rational(rng.randint(-9, 9), rng.choice([2, 3, 4]))
    return rng.choice(["a", "ab", "", "b c", "Z", "12"])


def rand_list(rng, depth, kinds):
    n = rng.randint(0, 4 if depth else 5)
    return [rand_list(rng, depth - 1, kinds) if depth and rng.random() < 0.35 else scalars(rng, rng.choice(kinds))
            for _ in range(n)]


def main(tier):
    t0 = time.time()
    rng = common.rng(8)
    V = common.Verdicts(PID)
    common.import_repo()
    tb = table()
    per = 40 if tier == "quick" else 200
    cs = []
    preds = []
    for k in [e["key"] for e in tb["included"]] + ["G", "g", "↑", "↓", "s", "U", "ṡ", "Ṡ", "∑", "Π"]:
        try:
            case_fn(k)
            preds.append(k)
        except KeyError:
            pass
    for ent in tb["included"]:
        key, ar, kinds = ent["key"], ent["arity"], ent["kinds"]
        try:
            case_fn(key)
        except KeyError:
            continue
        for i in range(per):
            depth = rng.choice([0, 0, 1, 1, 2])
            lazy = i % 3 == 2
            if ar == 1:
                cs.append((key, 1, rand_list(rng, depth, kinds), None, lazy))
            else:
                shape = i % 4
                a = rand_list(rng, depth, kinds) if shape != 1 else scalars(rng, rng.choice(kinds))
                b = rand_list(rng, depth, kinds) if shape != 0 else scalars(rng, rng.choice(kinds))
                if shape == 3 and isinstance(a, list) and isinstance(b, list):
                    b = b[: len(a)] + [scalars(rng, rng.choice(kinds)) for _ in range(max(0, len(a) - len(b)))]
                cs.append((key, 2, a, b, lazy))
        # string leaves for EVERY element (a leaf call the element does not support leaves the case unevaluated),
        # and a list paired with its own duplicate (eager, and lazy with the duplicate reading through the original)
        for i in range(per // 2 if not ent.get("nostr") and not uses_randomness(case_fn(key)) else 0):
            depth = rng.choice([0, 1, 1, 2])
            kk = ["str", "str", "int"]
            if ar == 1:
                cs.append((key, 1, rand_list(rng, depth, kk), None, i % 2 == 1))
            else:
                shape = i % 3
                a = rand_list(rng, depth, kk) if shape != 1 else scalars(rng, "str")
                b = rand_list(rng, depth, kk) if shape != 0 else scalars(rng, "str")
                cs.append((key, 2, a, b, i % 2 == 1))
        if ar == 2:
            for i in range(max(2, per // 8)):
                a = rand_list(rng, rng.choice([0, 1]), kinds)
                cs.append((key, 2, a, a, "coupled" if i % 2 == 0 else False))
        # every (predecessor, element) pair once: the predecessor runs first in the same process
        for pk in preds:
            a = rand_list(rng, rng.choice([0, 1]), kinds) or [1, 2]
            cs.append((key, ar, a, scalars(rng, rng.choice(kinds)) if ar == 2 else None, False, pk))
    with common.Scratch(PID) as s:
        mc = tlc.model_check(s, "MC_Vector", cfg="MC_Vector", workers=16)
        if not mc["ok"]:
            V.add("spec:MC_Vector:" + str(mc["violated"]), {"trace": tlc.counterexample(mc["out"])})
        obs = common.pool_map(observe, cs, initfn=common.import_repo, hard_timeout=60,
                              on_timeout=lambda c: {"ar": c[1], "a": {"i": 0}, "b": {"i": 0}, "tab": [], "res": {"i": 0}, "err": ""})
        common.retry_hangs(cs, obs, observe)      # a watchdog firing under load is re-observed alone, with longer alarms
        verdicts, st = tlc.validate(s, "Trace_Vector", obs, cfg="Trace_Vector.cfg", chunk=1500)
    tally = {}
    perkey = {}
    for c, v in zip(cs, verdicts):
        tally[v] = tally.get(v, 0) + 1
        if v == "ok":
            perkey[c[0]] = perkey.get(c[0], 0) + 1
        if v.startswith("violation"):
            V.add(f"{c[0]}:{v.split(':', 1)[1]}", {"element": c[0], "a": repr(c[2])[:200], "b": repr(c[3])[:200],
                                                   "lazy": c[4], "verdict": v})
    rc = V.finish()
    common.write_evidence(
        PID, tier, t0,
        {
            "states": mc["distinct"], "transitions": mc["generated"],
            "traces_validated_against_impl": sum(n for k, n in tally.items() if not k.startswith("skip")),
            "samples": [{"element": c[0], "a": repr(c[2])[:80], "b": repr(c[3])[:80], "lazy": c[4], "verdict": v}
                        for c, v in list(zip(cs, verdicts))[:: max(1, len(cs) // 12)][:12]],
            "evaluations": len(cs), "distinct_nontrivial": sum(n for k, n in tally.items() if not k.startswith("skip")),
            "rule": f"{len(tb['included'])} documented-vectorising elements (data/vectorising.json; {len(tb['excluded'])} excluded with "
                    f"reasons) x {per} argument sets: flat and nested lists (depth <= 2, length <= 5) of the element's scalar "
                    "kinds, shapes list-scalar / scalar-list / list-list equal and unequal, every third set as lazy lists; "
                    "non-trivial = every leaf call the pairing structure demands succeeded",
            "verdicts": tally, "elements_with_ok_cases": len(perkey),
            "elements_never_evaluated": sorted(e["key"] for e in tb["included"] if e["key"] not in perkey),
            "mc": {"module": "MC_Vector", "distinct": mc["distinct"], "invariants": ["Total", "ShapePreserved", "ScalarBroadcast"]},
            "trace_tlc": {k: st[k] for k in st if k != "extra"}, "exhaustive": False,
        },
        ["the element is an uninterpreted leaf function: its scalar results are asked from the same implementation",
         "curated table data/vectorising.json lists the elements whose documented meaning on lists is element-wise"],
        len(V.violations),
    )
    print(f"C08 {tier}: {len(cs)} calls, verdicts {tally}, {len(perkey)} elements evaluated, {time.time() - t0:.1f}s")
    return rc
