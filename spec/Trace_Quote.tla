---- MODULE Trace_Quote ----
(***************************************************************************)
(* C06 on the implementation: s (the string), q (the text quotify          *)
(* returned), vals (what running q pushed, strings as code points; a       *)
(* non-string value is logged as <<-1>>), err.                             *)
(* Prop_C06: exactly one value and it equals s.                            *)
(***************************************************************************)
EXTENDS MC_Quote, Json, IOUtils, TLCExt

BatchFile == JsonDeserialize(IOEnv.TRACE_FILE)
ASSUME TLCSet(7, BatchFile)
Batch == TLCGet(7)

VARIABLES tid, phase
T == Batch[tid]

Verdict(t) ==
    IF t.err # "" THEN "violation:raised-" \o t.err
    ELSE IF Len(t.vals) # 1 THEN "violation:pushed-count"
    ELSE IF t.vals[1] # t.s THEN "violation:value-differs"
    ELSE IF t.q # Quote(t.s) THEN "drift:quote-text"
    ELSE "ok"

TInit == tid \in 1..Len(Batch) /\ phase = "start" /\ str = <<>>
Decide == /\ phase = "start" /\ phase' = "done" /\ tid' = tid /\ str' = str
          /\ PrintT(<<"V", tid, Verdict(T)>>)
TNext == Decide
====
