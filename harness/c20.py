"""C20 Every element is typeable in one byte per character and reachable.

Finite configuration space, enumerated completely in both tiers:
all 256 bytes, all 65 536 byte pairs, every key of the element / modifier /
structure tables (element keys from the AST of elements.py so duplicates in
the source survive), every entry of documents/knowledge/elements.yaml.
TLC (Trace_Config over VyConfig + the generated VyConfigData) decides each
item: observed behaviour of encoding/tokenise/parse, and the specification's
own lexer/parser on the same key.
"""
from __future__ import annotations

import time
from collections import Counter

from . import common, extract, project, tlc
from .common import cps

PID = "C20"


def byte_item(bs):
    import vyxal.encoding as E

    try:
        txt = E.vyxal_to_utf8(bs)
        back = E.utf8_to_vyxal(txt)
        return {"bytes": list(bs), "txt": cps(txt), "back": [ord(c) for c in back], "err": ""}
    except Exception as e:  # noqa: BLE001
        return {"bytes": list(bs), "txt": [], "back": [], "err": type(e).__name__}


class _Captured(BaseException):
    pass


def file_item(bs, tmpdir):
    """the same bytes as a program FILE read by execute_vyxal under flag v (the path every byte-encoded
    program takes): the text handed to the transpiler, converted back"""
    import os
    import vyxal.encoding as E
    import vyxal.main as M

    path = os.path.join(tmpdir, "prog.vy")
    with open(path, "wb") as f:
        f.write(bytes(bs))
    got = {}
    orig = M.transpile

    def spy(code, *a, **k):
        got["code"] = code
        raise _Captured()

    M.transpile = spy
    try:
        try:
            M.execute_vyxal(path, "v", [])
        except _Captured:
            pass
        txt = got["code"]
        back = E.utf8_to_vyxal(txt)
        return {"bytes": list(bs), "txt": cps(txt), "back": [ord(c) for c in back], "err": ""}
    except BaseException as e:  # noqa: BLE001
        return {"bytes": list(bs), "txt": [], "back": [], "err": type(e).__name__}
    finally:
        M.transpile = orig


def main(tier):
    t0 = time.time()
    V = common.Verdicts(PID)
    common.import_repo()
    cp = extract.codepage()
    elems, mods = extract.element_table()
    docs = extract.documented()
    syn = extract.syntax_tables()
    traces, labels = [], []

    traces.append({"op": "codepage", "cp": cps(cp)})
    labels.append(("codepage", ""))
    traces.append({"op": "bytes", "items": [byte_item([b]) for b in range(256)]})
    labels.append(("bytes1", ""))
    for b1 in range(256):
        traces.append({"op": "bytes", "items": [byte_item([b1, b2]) for b2 in range(256)]})
        labels.append(("bytes2", b1))

    # the file path: every single byte, every pair starting with a byte that text tools treat specially, the
    # byte-order marks and other signatures as triples / quadruples, random longer files
    import random
    import tempfile
    rr = random.Random(2020)
    with tempfile.TemporaryDirectory() as td:
        files = [[b] for b in range(256)]
        files += [[b1, b2] for b1 in (239, 187, 191, 13, 10, 254, 255, 0, 26, 43) for b2 in range(256)]
        files += [[239, 187, 191], [239, 187, 191, 49], [255, 254, 49], [254, 255, 49], [43, 47, 118], [0, 0, 254, 255],
                  [13, 10, 49], [49, 13, 10], [49, 26], [49, 0, 50], [239, 187], [187, 191, 239], [49, 239, 187, 191]]
        files += [[rr.randrange(256) for _ in range(rr.randint(3, 12))] for _ in range(300)]
        for lo in range(0, len(files), 256):
            traces.append({"op": "bytes", "items": [file_item(bs, td) for bs in files[lo:lo + 256]]})
            labels.append(("file-bytes", lo))

    occ = Counter(e["key"] for e in elems)
    parser_mods = set(syn["monadic"]) | set(syn["dyadic"]) | set(syn["triadic"])
    seen = Counter()

    import vyxal.elements as EL

    def key_trace(key, table, nocc, arity):
        tk, tr, err = project.parse_text(key)
        ctxs = []
        for pre, post in (("1", ""), ("", "1"), ("a", "a"), ("1", "1"), ("`s`", "`s`"), ("»\\»", ""), ("«a\\«", ""), ("»\\»", "1")):
            ctk, _, cerr = project.parse_text(pre + key + post)
            ctxs.append({"pre": cps(pre), "post": cps(post), "toks": ctk or [], "vflag": False, "loose": False,
                         "err": cerr if (cerr or "").startswith("lex") else ""})
        for pre in ("k", "∆", "ø", "Þ", "¨", "1k", "`s`∆"):
            for post in ("", "1"):
                ctk, _, cerr = project.parse_text(pre + key + post)
                ctxs.append({"pre": cps(pre), "post": cps(post), "toks": ctk or [], "vflag": False, "loose": True,
                             "err": cerr if (cerr or "").startswith("lex") else ""})
        for pre in ("→", "←", "1→", "→a←"):          # flag V: one-character variable names
            try:
                from vyxal.lexer import tokenise
                ctk, cerr = project.toks(tokenise(pre + key, True)), ""
            except Exception as e:  # noqa: BLE001
                ctk, cerr = [], "lex:" + type(e).__name__
            ctxs.append({"pre": cps(pre), "post": [], "toks": ctk, "loose": True, "vflag": True, "err": cerr})
        run = EL.elements.get(key, (None, -1))[1] if table == "elements" else -1
        lam = -1
        modtree, modtext = [], ""
        if table == "modifiers" or key in parser_mods:
            # the modifier applied to DISTINCT operands: the tree must hold each of them, in order, as the grammar says
            modtext = key + "+-*/"
            _, mt, merr = project.parse_text(modtext)
            modtree = mt or [{"t": "error:" + (merr or "")}]
        if key in ("←", "→"):
            # a variable access as a modifier operand: a get is a constant (arity 0), a set takes one value
            try:
                import vyxal.transpile as T
                from vyxal.lexer import tokenise
                from vyxal.parse import parse
                ar = T.lambda_wrap(parse(tokenise(key + "ab"))).arity
                lam = ar if isinstance(ar, int) and not isinstance(ar, bool) else -2
                run = 0 if key == "←" else 1
            except BaseException:  # noqa: BLE001
                lam = -1
        if table == "elements" and isinstance(run, int) and run >= 0 and key not in ("Q",):
            # the element as a modifier operand: the lambda the transpiler wraps it in (lambda_wrap) has the element's arity
            try:
                import vyxal.transpile as T
                from vyxal.lexer import tokenise
                from vyxal.parse import parse
                st = parse(tokenise(key))
                if len(st) == 1:
                    ar = T.lambda_wrap(st).arity
                    lam = ar if isinstance(ar, int) and not isinstance(ar, bool) else -2
            except BaseException:  # noqa: BLE001
                lam = -1
        return {"op": "key", "key": cps(key), "table": table, "toks": tk or [], "tree": tr or [],
                "err": err or "", "nocc": nocc, "arity": -1 if arity is None else arity,
                "runarity": run if isinstance(run, int) else -1, "lamarity": lam, "modtree": modtree, "modtext": cps(modtext),
                "inparser": key in parser_mods, "ctxs": ctxs}

    for e in elems:
        seen[e["key"]] += 1
        if seen[e["key"]] > 1:
            continue  # one verdict per distinct key; nocc carries the multiplicity
        traces.append(key_trace(e["key"], "elements", occ[e["key"]], e["arity"]))
        labels.append(("key", e["key"]))
    mocc = Counter(m["key"] for m in mods)
    for k in dict.fromkeys(m["key"] for m in mods):
        traces.append(key_trace(k, "modifiers", mocc[k], None))
        labels.append(("modkey", k))
    for k in dict.fromkeys(list(parser_mods) + syn["openers"] + syn["closers"] + [syn["break"], syn["recurse"], "|"]):
        traces.append(key_trace(k, "structure", 1, None))
        labels.append(("synkey", k))

    # the variable accesses (documented syntax elements: ← arity 0, → arity 1) as modifier operands
    import vyxal.transpile as T
    from vyxal.lexer import tokenise as _tok
    from vyxal.parse import parse as _parse
    for vk, want in (("←", 0), ("→", 1)):
        for name in ("ab", "q", "_x", "", "J", "V", "n", "W"):
            try:
                ar = T.lambda_wrap(_parse(_tok(vk + name))).arity
                lam = ar if isinstance(ar, int) and not isinstance(ar, bool) else -2
            except BaseException:  # noqa: BLE001
                lam = -3
            traces.append({"op": "varop", "key": cps(vk + name), "lamarity": lam, "want": want})
            labels.append(("varop", vk + name))

    eff = {e["key"]: e["arity"] for e in elems}  # dict semantics: the last duplicate wins
    for k in list(eff):  # the arity the transpiler actually sees (runtime table)
        r = EL.elements.get(k, (None, None))[1]
        if isinstance(r, int):
            eff[k] = r
    modkeys = set(m["key"] for m in mods) | parser_mods
    for i, d in enumerate(docs):
        k = "\n" if d["key"] == "␤" else d["key"]
        a = d["arity"]
        da = int(a) if a is not None and a.lstrip("-").isdigit() else -99
        ta = eff[k] if k in eff and eff[k] is not None else -98
        traces.append({"op": "doc", "key": cps(k), "docarity": da, "tabarity": ta, "ismod": k in modkeys})
        labels.append(("doc", f"{k}#{i}"))

    with common.Scratch(PID) as s:
        verdicts, st = tlc.validate(s, "Trace_Config", traces, cfg="Trace_Config.cfg", chunk=40,
                                    extra_files={"VyConfigData.tla": extract.config_module(cp)})
    tally = Counter()
    for (kind, what), v in zip(labels, verdicts):
        tally[v] += 1
        head = v.split(":")[0]
        if head == "violation":
            clause = v.split(":", 1)[1]
            w = what.split("#")[0] if kind == "doc" else what
            V.add(f"{clause}:{w}", {"item": kind, "what": what, "verdict": v})
        elif head in ("drift", "specviolation"):
            V.add_drift({"item": kind, "what": what, "verdict": v})
    rc = V.finish()
    undocumented = [k for k in eff if k not in {d['key'] for d in docs}]
    common.write_evidence(
        PID, tier, t0,
        {
            "states": st["distinct"], "transitions": st["generated"],
            "traces_validated_against_impl": len(traces),
            "samples": [{"item": l, "verdict": v} for l, v in list(zip(labels, verdicts))[:: max(1, len(labels) // 12)][:12]],
            "evaluations": 256 + 65536 + len(traces) - 257, "distinct_nontrivial": len(traces),
            "rule": "all 256 bytes, all 65536 byte pairs (one trace per first byte), every distinct key of the "
                    "element/modifier/structure tables, every entry of elements.yaml; all non-trivial",
            "verdicts": dict(tally), "element_keys": len(elems), "distinct_element_keys": len(eff),
            "modifier_keys": len(mods), "documented_entries": len(docs),
            "undocumented_keys_info": undocumented, "trace_tlc": st, "exhaustive": True,
        },
        ["element keys and arities are read from the AST of vyxal/elements.py (source order, duplicates kept)",
         "elements.yaml is read by a line parser (top-level '- element:' items, 2-space keys)",
         "a documented key that is lexer/parser syntax (spec SyntaxChars) needs no table entry"],
        len(V.violations),
    )
    print(f"C20 {tier}: {len(traces)} items, verdicts {dict(tally)}, {time.time() - t0:.1f}s")
    return rc
