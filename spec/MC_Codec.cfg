SPECIFICATION Spec
CONSTANTS
  MaxN = 3000
  Bases = {2, 3, 10, 27, 255}
INVARIANT LoopInvariant
INVARIANT DigitRange
INVARIANT RoundTrip
INVARIANT NoLeadingZero
PROPERTY Terminates
CHECK_DEADLOCK FALSE
