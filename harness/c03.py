"""C03 Literal contents and comments are data, never syntax.

Spec:  MC_Literal (ShapeInvariant + OneToken for every context x literal kind
       x payload <= MaxPayload over the syntax-significant alphabet).
Bind:  the same fillings (and random contexts) through the real
       tokenise/parse; Trace_Parse evaluates Prop_C03 on the observed trees
       (shape with payload p = shape with neutral payload) and conformance.
"""
from __future__ import annotations

import ast
import hashlib
import itertools
import json
import os
import re
import time
import warnings

from . import common, gen, project, tlc
from .common import cps

PID = "C03"

KINDS = ["string", "twochar", "char", "cstring", "cnumber", "cpnumber", "comment"]


def data():
    with open(os.path.join(common.VERIF, "data", "c03_contexts.json"), encoding="utf-8") as f:
        return json.load(f)


def literal(kind, p):
    return {
        "string": "`" + p + "`", "twochar": "‛" + p, "char": "\\" + p,
        "cstring": "«" + p + "«", "cnumber": "»" + p + "»", "cpnumber": "⁺" + p,
        "comment": "#" + p + "\n",
    }[kind]


def legal(kind, n):
    if kind == "twochar":
        return n == 2
    if kind in ("char", "cpnumber"):
        return n == 1
    return True


def data_module(d):
    ctxs = []
    for c in d["contexts"]:
        ctxs.append("<<" + ", ".join("0" if ch == d["hole"] else str(ord(ch)) for ch in c) + ">>")
    return (
        "---- MODULE MC_LiteralData ----\n(* GENERATED from data/c03_contexts.json *)\n"
        "Contexts == {" + ",\n  ".join(ctxs) + "}\n"
        "PayloadAlphabet == {" + ", ".join(str(ord(c)) for c in d["payload_alphabet"]) + "}\n====\n"
    )


_LAMBDA_ID = re.compile(r"(?:_lambda_|VAR_LOOP|_)[0-9a-f]{32}")


def code_shape(text, dict_compress=True):
    """the emitted Python with every constant abstracted (and the random lambda ids numbered in
    order of appearance): what a literal payload may NOT change"""
    from vyxal.transpile import transpile

    try:
        code = transpile(text, dict_compress)
    except RecursionError:
        return "transpile-raised:RecursionError"
    except Exception as e:  # noqa: BLE001
        return "transpile-raised:" + type(e).__name__
    ids = {}
    code = _LAMBDA_ID.sub(lambda m: "_rid_%d" % ids.setdefault(m.group(0), len(ids)), code)
    try:
        with warnings.catch_warnings():
            warnings.simplefilter("ignore")
            tree = ast.parse(code)
    except (SyntaxError, ValueError):
        return "does-not-compile"
    except RecursionError:
        return "too-deep"
    # constants are abstracted -- except the integers that say HOW MANY stack values something takes (the count
    # handed to pop / wrapify, an arity assigned to a function): those are grouping, not data
    keep = set()
    for node in ast.walk(tree):
        if isinstance(node, ast.Call) and isinstance(node.func, ast.Name) and node.func.id in ("pop", "wrapify"):
            for a in node.args[1:2]:
                if isinstance(a, ast.Constant) and isinstance(a.value, int):
                    keep.add(id(a))
        if isinstance(node, ast.Assign) and any(isinstance(t, ast.Attribute) and t.attr in ("arity", "stored_arity") for t in node.targets):
            if isinstance(node.value, ast.Constant):
                keep.add(id(node.value))
    for node in ast.walk(tree):
        if isinstance(node, ast.Constant) and id(node) not in keep:
            node.value = 0
            node.kind = None
    try:
        return hashlib.sha1(ast.dump(tree).encode("utf-8")).hexdigest()[:16]
    except RecursionError:
        return "too-deep"


def observe(case):
    a, b, meta = case
    _, ta, ea = project.parse_text(a)
    _, tb, eb = project.parse_text(b)
    return {"op": "lit", "a": cps(a), "b": cps(b),
            "ta": ta or [], "tb": tb or [], "ea": ea or "", "eb": eb or "",
            # with dictionary compression on, and off (flag D)
            "ca": code_shape(a) + "/" + code_shape(a, False), "cb": code_shape(b) + "/" + code_shape(b, False)}


# contexts in which the literal is the LAST thing of the program, so that it may be left unclosed
END_CONTEXTS = ["□", "1 □", "[1|□", "λ□", "⟨1|□", "(n|□", "{1|□", "@f|□", "v□", "₌+□", "[(λ⟨□", "1[2|3]□", "ƛ'µ□"]


def open_literal(kind, p):
    return {"string": "`" + p, "twochar": "‛" + p, "char": "\\" + p, "cstring": "«" + p, "cnumber": "»" + p,
            "cpnumber": "⁺" + p, "comment": "#" + p}[kind]


def cases(tier, rng, d):
    out = []
    alpha = d["payload_alphabet"] + d.get("lexer_alphabet", "")
    hole = d["hole"]
    full2 = set(range(len(d["contexts"]))) if tier == "thorough" else set(range(0, len(d["contexts"]), 5))
    for ci, ctx in enumerate(d["contexts"]):
        for kind in KINDS:
            lens = [0, 1, 2] if ci in full2 else [0, 1]
            if kind == "twochar" and 2 not in lens:
                lens = [2]  # the only legal length; sample it below
            for n in lens:
                if not legal(kind, n):
                    continue
                if n == 2 and tier == "quick":
                    # pairs: both of the property's characters, or one lexer character next to one of six others
                    core, lex = d["payload_alphabet"], d.get("lexer_alphabet", "")
                    payloads = ["".join(t) for t in itertools.product(core, repeat=2)] + \
                               [x + y for x in lex for y in lex[:6]] + [y + x for x in lex[6:] for y in lex[:6]] + \
                               [x + y for x in lex[:8] for y in core[:6]] + [y + x for x in lex[:8] for y in core[:6]]
                    payloads = list(dict.fromkeys(payloads))
                else:
                    payloads = ["".join(t) for t in itertools.product(alpha, repeat=n)]
                if kind == "twochar" and ci not in full2:
                    payloads = [p for p in payloads if p[0] == p[1] or rng.random() < 0.05]
                for p in payloads:
                    a = ctx.replace(hole, literal(kind, p))
                    b = ctx.replace(hole, literal(kind, "a" * n))
                    out.append((a, b, {"ctx": ctx, "kind": kind, "payload": p}))
    # literals left unclosed at the end of the program (a two-character string may then be shorter)
    for ctx in END_CONTEXTS:
        for kind in KINDS:
            top = 1 if kind in ("char", "cpnumber") else 2
            for n in range(1, top + 1):
                for p in ("".join(t) for t in itertools.product(alpha, repeat=n)):
                    if n == 2 and tier == "quick" and kind != "twochar" and rng.random() < 0.8:
                        continue
                    out.append((ctx.replace("□", open_literal(kind, p)), ctx.replace("□", open_literal(kind, "a" * n)),
                                {"ctx": ctx + " (unclosed)", "kind": kind, "payload": p}))
    # random contexts from the structure grammar, hole in a random literal slot
    g = gen.Gen(rng, atoms=list("+-*:_$W=<L"), literals=("1", "2", hole), strings=False)
    nr = 600 if tier == "quick" else 20000
    for _ in range(nr):
        ctx = g.program(depth=4)
        if hole not in ctx:
            ctx = hole + ctx
        ctx = ctx.replace(hole + " ", hole)
        # only the first hole is the literal under test; others become a number
        i = ctx.index(hole)
        ctx = ctx[: i + 1] + ctx[i + 1:].replace(hole, "7")
        kind = rng.choice(KINDS)
        n = 2 if kind == "twochar" else 1 if kind in ("char", "cpnumber") else rng.randint(1, 4)
        p = "".join(rng.choice(alpha) for _ in range(n))
        out.append((ctx.replace(hole, literal(kind, p)), ctx.replace(hole, literal(kind, "a" * n)),
                    {"ctx": ctx, "kind": kind, "payload": p}))
    return out


def main(tier):
    t0 = time.time()
    rng = common.rng(3)
    d = data()
    V = common.Verdicts(PID)
    extra = {"MC_LiteralData.tla": data_module(d)}
    with common.Scratch(PID) as s:
        mc = tlc.model_check(s, "MC_Literal", cfg="MC_Literal_quick" if tier == "quick" else "MC_Literal",
                             workers=16, extra_files=extra)
        if not mc["ok"]:
            V.add("spec:MC_Literal:" + str(mc["violated"]),
                  {"what": "design-level check failed", "trace": tlc.counterexample(mc["out"])})
        cs = cases(tier, rng, d)
        common.import_repo()
        obs = common.pool_map(observe, cs, initfn=common.import_repo)
        verdicts, st = tlc.validate(s, "Trace_Parse", obs, cfg="Trace_Parse.cfg", chunk=4000,
                                    extra_files=extra)
    tally = {}
    nontrivial = set()
    for (a, b, meta), v in zip(cs, verdicts):
        key = v.split(":")[0]
        tally[v] = tally.get(v, 0) + 1
        if key == "violation":
            if v == "violation:payload-changes-emitted-code" and "\\x" in meta["payload"] and meta["kind"] in ("string", "twochar"):
                # the payload spells a truncated Python \x escape: the recorded defect of the string lowering (C02)
                V.add("py-escape:\\x", {"program": a, "neutral": b, **meta, "verdict": v})
                continue
            V.add(f"lit:{meta['kind']}:{meta['payload']!r}:in:{meta['ctx']!r}",
                  {"program": a, "neutral": b, **meta, "verdict": v})
        elif key in ("drift", "specviolation") or v == "skip:spec-shapes-differ":
            V.add_drift({"program": a, **meta, "verdict": v})
        if key in ("ok", "violation", "drift"):
            nontrivial.add(a)
    rc = V.finish()
    common.write_evidence(
        PID, tier, t0,
        {
            "states": mc["distinct"], "transitions": mc["generated"],
            "traces_validated_against_impl": sum(v for k, v in tally.items() if not k.startswith("skip")),
            "samples": [{"program": a, "kind": m["kind"], "payload": m["payload"], "verdict": v}
                        for (a, b, m), v in list(zip(cs, verdicts))[:: max(1, len(cs) // 12)][:12]],
            "evaluations": len(cs), "distinct_nontrivial": len(nontrivial),
            "rule": "40 fixed contexts x 7 literal kinds x every payload of length <=1 (quick; <=2 in every 5th "
                    "context) or <=2 (thorough) over the 28 syntax-significant characters, plus random depth-4 "
                    "contexts; non-trivial = distinct filled program decided by TLC",
            "verdicts": tally,
            "mc": {"module": "MC_Literal", "distinct": mc["distinct"], "invariants": ["ShapeInvariant", "OneToken"],
                   "wall_s": round(mc["wall"], 1)},
            "trace_tlc": st, "exhaustive": False,
        },
        ["reference lexer/parser in spec/ treat a token as syntax only when its kind is general",
         "payload alphabet and contexts are data/c03_contexts.json"],
        len(V.violations),
    )
    print(f"C03 {tier}: {len(cs)} fillings, verdicts {tally}, MC {mc['distinct']} states, {time.time() - t0:.1f}s")
    return rc
