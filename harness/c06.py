"""C06 Quoting a string and evaluating the quoted text returns the same string.

Spec:  MC_Quote (Quote . lexer string branch . escaping loop . Python literal
       decoding = identity, one STRING token, literal closes) for every string
       <= 4 over the 10 escape-relevant characters.
Bind:  quotify(s) of the implementation, the produced text run as a program
       (dictionary compression off over the whole code page; on for printable
       ASCII); TLC compares the pushed value with s and the quote text with Quote(s).
"""
from __future__ import annotations

import itertools
import string
import time

from . import common, runner, tlc
from .common import cps

PID = "C06"
ESC = "\\`\"'\nanx0λ"


# where the quoted literal stands: alone, and inside each kind of block (indented code, list items, functions)
CONTEXTS = ["□", "λ□;†", "1(□)", "1[□]", "⟨□⟩", "1(1[λ⟨□⟩;†])", "@f|□;@f;", "0[1|□]"]


def leaves(v, acc):
    from vyxal.LazyList import LazyList

    if isinstance(v, (list, LazyList)):
        for x in v:
            leaves(x, acc)
    else:
        acc.append(v)
    return acc


def observe(case):
    s, dc = case[:2]
    ctxi = case[2] if len(case) > 2 else 0
    from vyxal.context import Context
    from vyxal.elements import quotify

    runtime_v = None
    if ctxi >= 100:
        # the RUN-TIME route: the string is on the stack, the quote element quotes it and Vyxal-exec evaluates the
        # quoted text under the run's own flags (ctxi - 100: 0 = none, 1 = flag V, one-character variable names)
        runtime_v = ctxi - 100
        ctxi = 0
    try:
        q0 = quotify(s, Context())
        q = CONTEXTS[ctxi].replace("□", q0) if runtime_v is None else q0 + "qĖ"
    except Exception as e:  # noqa: BLE001
        return {"s": cps(s), "q": [], "vals": [], "err": "quotify:" + type(e).__name__}
    try:
        with runner.CaptureStdout():     # a broken quote may run the string's tail as a program
            if not dc:
                # the same text first goes through the transpiler in the OTHER mode (its result is not judged):
                # whatever the transpiler remembers between calls must not leak into this run
                try:
                    common.with_alarm(lambda _: runner.exec_text(q, dict_compress=True), None, 3)
                except BaseException:  # noqa: BLE001
                    pass
            rctx = None
            if runtime_v:
                rctx = Context()
                rctx.variable_length_1 = True
            stack, ctx, err = common.with_alarm(lambda _: runner.exec_text(q, dict_compress=dc, ctx=rctx), None, 5)
    except common.CaseTimeout:
        return {"s": cps(s), "q": cps(q0), "vals": [], "err": "hang"}
    except BaseException as e:  # noqa: BLE001
        return {"s": cps(s), "q": cps(q0), "vals": [], "err": type(e).__name__}
    vals = [cps(v) if isinstance(v, str) else [-1] for v in (leaves(stack or [], []) if ctxi else (stack or []))]
    return {"s": cps(s), "q": cps(q0), "vals": vals, "err": (err or "").split(":")[1] if ":" in (err or "") else (err or "")}


def main(tier):
    t0 = time.time()
    rng = common.rng(6)
    V = common.Verdicts(PID)
    common.import_repo()
    import vyxal.encoding as E

    cs = []
    n = 3 if tier == "quick" else 4
    for L in range(0, n + 1):
        for tup in itertools.product(ESC, repeat=L):
            cs.append(("".join(tup), False))
    # every code-page character alone and doubled, next to a backslash and a back-quote
    for ch in E.codepage:
        for s in (ch, ch + ch, "\\" + ch, ch + "\\", "`" + ch, ch + "`", "\\\\" + ch):
            cs.append((s, False))
    pa = [c for c in string.printable if c in E.codepage]
    for _ in range(2000 if tier == "quick" else 100000):
        L = rng.randint(0, 40)
        if rng.random() < 0.6:
            cs.append(("".join(rng.choice(E.codepage) for _ in range(L)), False))
        else:
            cs.append(("".join(rng.choice(pa) for _ in range(L)), True))
    for L in range(0, 3):
        for tup in itertools.product("\\`\"a n", repeat=L):
            cs.append(("".join(tup), True))
    cs = list(dict.fromkeys(cs))
    # the same strings with the quoted literal inside a block (every string in one of the contexts, round robin;
    # strings with a newline or a non-ASCII character in every context)
    inner = []
    for i, (sv, dc) in enumerate(cs):
        if "\n" in sv or any(ord(c) > 126 for c in sv):
            if len(sv) <= 3 or i % 4 == 0:
                inner += [(sv, dc, k) for k in range(1, len(CONTEXTS))]
                continue
        inner.append((sv, dc, 1 + i % (len(CONTEXTS) - 1)))
    cs += inner
    # the run-time route (quote element + Vyxal-exec) under each combination of the flags D and V
    base = [c for c in cs if len(c) == 2]
    for i, (sv, dc) in enumerate(base):
        if len(sv) <= 3 or i % 5 == 0:
            cs.append((sv, dc, 100))
            cs.append((sv, dc, 101))
    with common.Scratch(PID) as s:
        mc = tlc.model_check(s, "MC_Quote", cfg="MC_Quote", workers=16)
        if not mc["ok"]:
            V.add("spec:MC_Quote:" + str(mc["violated"]), {"trace": tlc.counterexample(mc["out"])})
        obs = common.pool_map(observe, cs, initfn=common.import_repo, hard_timeout=30,
                              on_timeout=lambda c: {"s": cps(c[0]), "q": [], "vals": [], "err": "hang"})
        common.retry_hangs(cs, obs, observe)      # a watchdog firing under load is re-observed alone, with longer alarms
        verdicts, st = tlc.validate(s, "Trace_Quote", obs, cfg="Trace_Quote.cfg", chunk=5000)
    tally = {}
    for (sv, dc, *cx), v, o in zip(cs, verdicts, obs):
        tally[v] = tally.get(v, 0) + 1
        if v.startswith("violation"):
            cxn = ("" if not cx else "run-time route" + (" flag V" if cx[0] == 101 else "") if cx[0] >= 100 else CONTEXTS[cx[0]])
            V.add(f"{v.split(':', 1)[1]}:{sv!r}:compression={'on' if dc else 'off'}" + (f":in:{cxn}" if cx else ""),
                  {"string": sv, "dictionary_compression": dc, "quoted": common.uncps(o["q"]), "context": cxn or "□",
                   "pushed": [common.uncps(x) if x != [-1] else "<non-string>" for x in o["vals"]], "err": o["err"]})
        elif v.startswith("drift"):
            V.add_drift({"string": sv, "verdict": v})
    rc = V.finish()
    common.write_evidence(
        PID, tier, t0,
        {
            "states": mc["distinct"], "transitions": mc["generated"], "traces_validated_against_impl": len(cs),
            "samples": [{"string": sv, "compression": dc, "verdict": v}
                        for (sv, dc, *_), v in list(zip(cs, verdicts))[:: max(1, len(cs) // 12)][:12]],
            "evaluations": len(cs), "distinct_nontrivial": len(cs),
            "rule": f"every string <= {n} over the 10 escape-relevant characters; every code-page character in 7 "
                    "neighbourhoods; random strings <= 40 over the code page (compression off) and over printable ASCII "
                    "(compression on); all strings <= 2 over {\\\\,`,\",a,space,n} with compression on; all distinct",
            "verdicts": tally, "mc": {"module": "MC_Quote", "distinct": mc["distinct"],
                                      "invariants": ["OneStringToken", "LiteralCloses", "RoundTrip"]},
            "trace_tlc": {k: st[k] for k in st if k != "extra"}, "exhaustive": False,
        },
        ["Python literal decoding is modelled for the simple escapes the escaper can emit", "values compared as code points"],
        len(V.violations),
    )
    print(f"C06 {tier}: {len(cs)} strings, verdicts {tally}, MC {mc['distinct']} states, {time.time() - t0:.1f}s")
    return rc
