SPECIFICATION Spec
CONSTANT MaxSteps = 5
INVARIANT NoHostOutput
INVARIANT NoUserPython
INVARIANT ErrorsRecorded
PROPERTY OutputOnlyGrows
PROPERTY ModeIsFixed
CHECK_DEADLOCK FALSE
