SPECIFICATION Spec
CONSTANT AlphaSel = "Z"
CONSTANT StepBound = 200
CONSTANT MaxToks = 6
INVARIANT StatusOK
INVARIANT BalancedAtEnd
INVARIANT TopLevelBalanced
INVARIANT ActivationsMatch
INVARIANT ScopesMatch
INVARIANT HeapOK
PROPERTY FrameRule
PROPERTY ProducedOnce
PROPERTY StepsGrow
CHECK_DEADLOCK FALSE
