"""Shared plumbing for every property driver.

* locating / importing the implementation under test (VERIF_REPO, default /repo)
* process pool with per-case alarm
* evidence writer, replay files, known findings, verdict printing
"""
from __future__ import annotations

import hashlib
import json
import multiprocessing as mp
import os
import random
import shutil
import signal
import sys
import tempfile
import time

VERIF = os.path.dirname(os.path.dirname(os.path.abspath(__file__)))
REPO = os.environ.get("VERIF_REPO", "/repo")
GUARD = "MATHCAT4_VYXAL2_VERIF"
PY = "/venv/bin/python"

os.environ.setdefault("PYTHONDONTWRITEBYTECODE", "1")
os.environ.setdefault("PYTHONHASHSEED", "0")
sys.dont_write_bytecode = True


def seed() -> int:
    try:
        return int(os.environ.get("VERIF_SEED", "0"))
    except ValueError:
        return 0


def tier(default="quick") -> str:
    t = os.environ.get("VERIF_TIER", default)
    return t if t in ("quick", "thorough") else default


def import_repo():
    """Make `import vyxal` resolve to the working tree under test."""
    os.environ[GUARD] = "1"
    if REPO not in sys.path:
        sys.path.insert(0, REPO)
    # stdin must never block an element that falls back to input()
    try:
        sys.stdin = open(os.devnull)
    except OSError:
        pass
    import vyxal.helpers  # noqa: F401  (import order matters: helpers before LazyList)
    import vyxal.main  # noqa: F401

    return sys.modules["vyxal"]


class CaseTimeout(BaseException):
    pass


def _alarm(signum, frame):
    raise CaseTimeout()


ALARM_SCALE = 1.0


def with_alarm(fn, arg, seconds):
    """Run fn(arg) under SIGALRM; returns (ok, value|exception-repr)."""
    signal.signal(signal.SIGALRM, _alarm)
    signal.setitimer(signal.ITIMER_REAL, seconds * ALARM_SCALE)
    try:
        return fn(arg)
    finally:
        signal.setitimer(signal.ITIMER_REAL, 0)


def _pool_init(initfn):
    sys.setrecursionlimit(20000)
    try:
        sys.stdin = open(os.devnull)
    except OSError:
        pass
    if initfn is not None:
        initfn()


def _hard_worker(fn, initfn, conn):
    _pool_init(initfn)
    while True:
        try:
            job = conn.recv()
        except EOFError:
            return
        if job is None:
            return
        idx, item = job
        try:
            res = ("ok", fn(item))
        except BaseException as e:  # noqa: BLE001
            res = ("exc", type(e).__name__ + ":" + str(e)[:200])
        try:
            conn.send((idx, res))
        except Exception as e:  # noqa: BLE001  unpicklable result
            conn.send((idx, ("exc", "send:" + type(e).__name__)))


def pool_map(fn, items, procs=None, initfn=None, chunksize=None, hard_timeout=None, on_timeout=None):
    """Order-preserving parallel map in fresh worker processes (fork).

    With hard_timeout (seconds) every item runs under a watchdog in the parent: a
    worker stuck in C code (where SIGALRM cannot interrupt) is killed and replaced,
    and the item's result is on_timeout(item).  Each worker has its own pipe, so
    killing one cannot corrupt a shared queue.
    """
    items = list(items)
    if not items:
        return []
    procs = procs or min(16, os.cpu_count() or 4)
    if hard_timeout is None:
        if procs <= 1 or len(items) < 4:
            _pool_init(initfn)
            return [fn(x) for x in items]
        ctx = mp.get_context("fork")
        cs = chunksize or max(1, min(200, len(items) // (procs * 4) or 1))
        with ctx.Pool(procs, initializer=_pool_init, initargs=(initfn,)) as pool:
            return pool.map(fn, items, chunksize=cs)
    from multiprocessing.connection import wait as _wait

    ctx = mp.get_context("fork")
    procs = min(procs, len(items))
    results = [None] * len(items)
    nxt = 0
    done = 0
    workers = {}  # conn -> [proc, idx or None, t0]

    def spawn():
        a, b = ctx.Pipe()
        p = ctx.Process(target=_hard_worker, args=(fn, initfn, b), daemon=True)
        p.start()
        b.close()
        workers[a] = [p, None, 0.0]
        return a

    def feed(conn):
        nonlocal nxt
        if nxt < len(items):
            workers[conn][1] = nxt
            workers[conn][2] = time.time()
            conn.send((nxt, items[nxt]))
            nxt += 1
        else:
            workers[conn][1] = None

    for _ in range(procs):
        feed(spawn())
    while done < len(items):
        ready = _wait(list(workers.keys()), timeout=0.5)
        for conn in ready:
            w = workers[conn]
            try:
                idx, res = conn.recv()
            except (EOFError, OSError):
                idx = w[1]
                workers.pop(conn)
                w[0].join(0.2)
                if idx is not None and results[idx] is None:
                    results[idx] = ("dead", None)
                    done += 1
                if nxt < len(items):
                    feed(spawn())
                continue
            if results[idx] is None:
                results[idx] = res
                done += 1
            feed(conn)
        now = time.time()
        for conn, w in list(workers.items()):
            if w[1] is not None and now - w[2] > hard_timeout:
                idx = w[1]
                w[0].kill()
                w[0].join(1)
                workers.pop(conn)
                conn.close()
                if results[idx] is None:
                    results[idx] = ("timeout", None)
                    done += 1
                if nxt < len(items):
                    feed(spawn())
    for conn, w in workers.items():
        try:
            conn.send(None)
        except Exception:  # noqa: BLE001
            pass
    for conn, w in workers.items():
        w[0].join(0.3)
        if w[0].is_alive():
            w[0].kill()
    out = []
    for item, r in zip(items, results):
        if r[0] == "ok":
            out.append(r[1])
        else:
            out.append(on_timeout(item) if on_timeout else None)
    return out


def retry_hangs(cases, obs, observe_fn, scale=6.0, limit=12):
    """A watchdog that fires on a loaded machine is not an observation of the implementation: every case whose
    observation mentions a hang is observed once more (when there are only a few of them), alone in this process, with every alarm `scale` times
    longer; what that run observes replaces the first observation (a real non-termination hangs again)."""
    global ALARM_SCALE
    idx = [i for i, o in enumerate(obs) if o is not None and '"hang"' in json.dumps(o, default=repr)]
    if not idx or len(idx) > limit:
        return 0
    old = ALARM_SCALE
    ALARM_SCALE = scale
    try:
        for i in idx:
            try:
                obs[i] = observe_fn(cases[i])
            except BaseException:  # noqa: BLE001
                pass
    finally:
        ALARM_SCALE = old
    return len(idx)


# --------------------------------------------------------------------------
# scratch space


class Scratch:
    def __init__(self, tag):
        base = os.environ.get("TMPDIR", "/tmp")
        self.path = tempfile.mkdtemp(prefix=f"verif-{tag}-", dir=base)

    def __enter__(self):
        return self.path

    def __exit__(self, *a):
        shutil.rmtree(self.path, ignore_errors=True)


# --------------------------------------------------------------------------
# known findings


def load_known():
    p = os.path.join(VERIF, "known_findings.json")
    if not os.path.exists(p):
        return {"findings": [], "fixed": []}
    with open(p, encoding="utf-8") as f:
        return json.load(f)


class Verdicts:
    """Collects violations for one property, separates known findings."""

    def __init__(self, pid):
        self.pid = pid
        self.known = [
            k for k in load_known().get("findings", []) if k["property"] == pid
        ]
        self.violations = []  # (signature, detail dict)
        self.known_hits = {}  # signature -> (entry, first detail)
        self.drift = []

    def _match(self, sig):
        for k in self.known:
            if k["signature"] == sig:
                return k
        return None

    def add(self, signature, detail):
        only = os.environ.get("VERIF_ONLY_SIGNATURE")
        if only is not None and signature != only:
            return                      # a replay looks for one recorded violation only
        k = self._match(signature)
        if k is not None:
            self.known_hits.setdefault(signature, (k, detail))
        else:
            self.violations.append((signature, detail))

    def add_drift(self, detail):
        self.drift.append(detail)

    def finish(self):
        """Print KNOWN-FINDING / VIOLATION lines; return exit code."""
        for sig, (k, d) in sorted(self.known_hits.items()):
            print(f"KNOWN-FINDING: property={self.pid} {k['what']} [{sig}]")
        for d in self.drift[:10]:
            print(f"DRIFT property={self.pid} {json.dumps(d, ensure_ascii=False)[:300]}")
        if not self.violations:
            return 0
        rdir = os.environ.get("VERIF_REPLAY_DIR") or os.path.join(VERIF, "replays")
        os.makedirs(rdir, exist_ok=True)
        seen = set()
        for sig, d in self.violations:
            if sig in seen:
                continue
            seen.add(sig)
            if len(seen) > 25:
                break
            h = hashlib.sha1(sig.encode("utf-8")).hexdigest()[:12]
            path = os.path.join(rdir, f"{self.pid}-{h}.json")
            with open(path, "w", encoding="utf-8") as f:
                json.dump(
                    {"property": self.pid, "signature": sig, "detail": d, "seed": seed(), "tier": tier(),
                     "how_to_replay": f"bin/check {self.pid} --replay <this file>: re-runs the same deterministic run "
                                      "(same tier and seed) and reports only this signature"},
                    f,
                    ensure_ascii=False,
                    indent=1,
                    default=repr,
                )
            print(f"VIOLATION property={self.pid} replay={path}")
            print(f"  signature: {sig}")
            print(f"  detail: {json.dumps(d, ensure_ascii=False, default=repr)[:600]}")
        return 1


# --------------------------------------------------------------------------
# evidence


def write_evidence(pid, tier_, t0, coverage, assumptions, violations, level="model_checking"):
    edir = os.environ.get("VERIF_EVIDENCE_DIR") or os.path.join(VERIF, "evidence")   # (seed sweeps write elsewhere)
    os.makedirs(edir, exist_ok=True)
    ev = {
        "property_id": pid,
        "tier": tier_,
        "seed": seed(),
        "level": level,
        "coverage": coverage,
        "assumptions": assumptions,
        "wall_s": round(time.time() - t0, 2),
        "violations": int(violations),
    }
    path = os.path.join(edir, f"{pid}.json")
    tmp = path + ".tmp"
    with open(tmp, "w", encoding="utf-8") as f:
        json.dump(ev, f, ensure_ascii=False, indent=1, default=repr)
    os.replace(tmp, path)
    return path


def rng(extra=0):
    return random.Random(seed() * 1000003 + extra)


def cps(s: str):
    """text -> list of code points (the spec's representation of text)"""
    return [ord(c) for c in s]


def uncps(l):
    return "".join(chr(c) for c in l)
