"""Single source for MANIFEST.json: `python -m harness.manifest` rewrites it.

A property is claimed only when it has an entry in CHECKS; every other
property of properties.jsonl is listed under not_applicable with its reason
from NOT_APPLICABLE (or the default 'under construction').
"""
import json
import os

VERIF = os.path.dirname(os.path.dirname(os.path.abspath(__file__)))

TECH = "TLA+ specification model-checked with TLC + trace validation of the implementation by TLC"

CHECKS = {
    "C03": dict(
        text="TLC checks ShapeInvariant and OneToken of the reference lexer+parser for every context x literal "
             "kind x payload up to the bound (MC_Literal); the real tokenise/parse is run on the same fillings and "
             "on random depth-4 contexts and TLC evaluates shape equality on the observed trees (Trace_Parse).",
        note="Trusted: transcription of lexer/parser rules in spec/VyLexer.tla, spec/VyParser.tla; the 40 contexts "
             "28-character payload alphabet and lexer alphabet in data/c03_contexts.json; payload length <= 2 exhaustively; "
             "the emitted Python with constants abstracted (with and without dictionary compression) must not depend on "
             "the payload either. Known finding: a payload spelling a truncated \\x escape (known_findings.json).",
        ref="DESIGN.md section 6 C03",
        technique="TLA+ spec (VyLexer, VyParser, MC_Literal) checked by TLC + TLC validation of observed parse trees",
    ),
    "C04": dict(
        text="TLC checks TruncationInvariant on the reference parser for every token sequence up to the bound "
             "(MC_Parser); the real tokenise/parse is run on the same programs as text and on random deep programs, "
             "and TLC evaluates the property on the observed trees and the conformance of each tree (Trace_Parse).",
        note="Trusted: transcription of the documented grammar in spec/VyParser.tla (WellFormedToks); bounds: "
             "<= 4/5 tokens over 21 symbols exhaustively, depth-4 random beyond.",
        ref="DESIGN.md section 6 C04",
        technique="TLA+ spec (VyLexer, VyParser, MC_Parser) checked by TLC + TLC validation of observed parse trees",
    ),
}

CHECKS["C20"] = dict(
    text="The configuration space is finite and enumerated completely: all 256 bytes, all 65 536 byte pairs, every "
         "key of the element/modifier/structure tables (from the AST, duplicates kept), every documentation entry. "
         "TLC decides every item over the extracted code page (VyConfigData): injectivity, byte round trip, one "
         "general token per key by the real tokenise and by the specification's lexer, not shadowed in the real "
         "parse, no duplicate key, documented arity = table arity.",
    note="Trusted: extraction (AST of elements.py, line parser of elements.yaml), spec lexer/parser. Exhaustive.",
    ref="DESIGN.md section 6 C20",
    technique="TLA+ spec (VyConfig over extracted VyConfigData, VyLexer, VyParser) evaluated by TLC on every "
              "configuration item and on the observed tokenise/parse/encoding behaviour",
)

CHECKS["C05"] = dict(
    text="TLC checks the number-scanning rules of the lexer specification (no character lost, documented splitting, "
         "maximal tokens) for every digit/point string up to the bound and the BigNat/Denote definitions against "
         "native arithmetic; every literal of the tier's domain is run alone on the real transpiler and TLC compares "
         "the number of pushed values, their type class and their exact value (cross-multiplied BigNat) with the "
         "denotation of the reference lexer's tokens.",
    note="Trusted: VyLexer number rules, VyNumber.Denote (PointIsHalf, trailing point ignored), BigNat limb "
         "arithmetic (itself checked exhaustively on <= 4 digits). In its transcribed-function form: the ∀ is over "
         "inputs, not interleavings. Known finding: sympy.nsimplify(str) lowering is inexact (known_findings.json).",
    ref="DESIGN.md section 6 C05",
    technique="TLA+ spec (VyLexer number branch, VyNumber, BigNat) model-checked by TLC + TLC evaluation of "
              "Denote on every observed literal",
)

CHECKS["C13"] = dict(
    text="TLC checks that the implementation layer of VyLazyList (memoising cursor, every method as written) refines "
         "the plain list for every source <= 3 over {0,1,2} and every observation history (Refines, CachePrefix, "
         "AppendOnly). Every observation path of the tier's length over the specification's 33 parametrised "
         "operations is stepped through a fresh real LazyList and TLC validates each logged answer against the "
         "plain-list answer and the logged cache against the Impl layer in lock-step (Trace_LazyList).",
    note="Trusted: Abs layer = Vyxal list semantics (wrapping index, Python negative index, truncating slices); "
         "path length 2 (quick) / 3 (thorough) exhaustive, random histories to length 12 beyond.",
    ref="DESIGN.md section 6 C13",
    technique="TLA+ refinement spec (VyLazyList Abs/Impl) model-checked by TLC + lock-step TLC validation of "
              "observation histories replayed into the real LazyList",
)

CHECKS["C01"] = dict(
    text="VyMachine is a small-step TLA+ semantics of Vyxal programs (structures, call protocol, modifiers, input, "
         "implicit output). TLC explores every program up to the token bound on three input lists step by step "
         "(MC_Machine). The implementation runs the same small programs and structured random programs through "
         "execute_vyxal with statement probes; TLC steps the machine in lock-step with the probes (Trace_Machine) "
         "and decides the property on the final forced stack and the captured stdout. Runs may carry a denotation "
         "twin (the same program with a list literal written as an equivalent lazy range): both must end alike.",
    note="Trusted: the transcription of the templates/semantics in spec/VyMachine.tla, VyValues.tla (closed core of 87 "
         "elements on integers, plain-ASCII strings and lists; anything else = skip:undefined, counted, reasons listed in "
         "the evidence). Impure lazily mapped / filtered / scanned lambda bodies are heap cells of the machine, produced "
         "when printed or turned into text (DeferredMap); other uses of such values are outside the model. Bounds: "
         "<= 3/4 symbols exhaustive over two alphabets, <= 5/6 over the lazy-list alphabet, scenario families A-I, "
         "depth <= 4 random.",
    ref="DESIGN.md section 6 C01",
    technique="TLA+ small-step semantics (VyMachine) model-checked by TLC + lock-step TLC validation of probe traces "
              "of execute_vyxal",
)
CHECKS["C12"] = dict(
    text="MC_Machine checks BalancedAtEnd and TopLevelBalanced (the four bookkeeping depths and the context value) on "
         "every state of every small program, including break/continue at every position; every module-frame probe "
         "and the final state of real runs log the four depths and the context value, and TLC evaluates the balance "
         "where the machine is outside all loops (Trace_Machine, verdict W).",
    note="Trusted: VyMachine's position (loop depth 0) decides which probes are 'outside all loops'; depths are read "
         "from the real Context object after the run. Same bounds as C01.",
    ref="DESIGN.md section 6 C12",
    technique="TLA+ invariants on VyMachine model-checked by TLC + TLC validation of logged context depths",
)

CHECKS["C11"] = dict(
    text="MC_Input explores VyInput (scopes <<vals, cursor>>, explicit / implicit reads, lambda / function entry, "
         "leave) for every input list <= 3 and every history up to the bound and checks that the top-level stream is "
         "cyclic, the cursor counts deliveries and inner implicit reads deliver call arguments. Histories over the "
         "same actions are compiled to Vyxal programs (the history is the test), run with the outermost get_input "
         "logged, and TLC replays each history on VyInput and compares the logged deliveries and printed values.",
    note="Trusted: VyInput's transcription of Input.md/get_input/pop; the compilation of a history to a program "
         "(harness/c11.py compile_history); histories <= 3/4 exhaustive on 4 input lists, random <= 12 beyond.",
    ref="DESIGN.md section 6 C11",
    technique="TLA+ spec (VyInput) model-checked by TLC; spec histories replayed into execute_vyxal and the logged "
              "reads validated by TLC (Trace_Input)",
)

CHECKS["C02"] = dict(
    text="VyEmit lowers the parse tree to Python line structure template by template; TLC checks that the lowering of "
         "every program up to the token bound over the 21-token structural alphabet is valid block structure "
         "(MC_Emit: is the break/recurse lowering by recorded parent always legal where the line lands?). The real "
         "transpile() runs on the same programs, on every element and modifier key in every position class, on "
         "end-truncations and random deep programs; TLC decides well-formedness, Prop_C02 (no exception, compiles) "
         "and the conformance of the observed line structure with VyEmit.",
    note="Trusted: VyEmit's transcription of the templates; element/modifier templates enter as line-structure data "
         "extracted from the working tree; compile() is the ground truth of 'syntactically valid'.",
    ref="DESIGN.md section 6 C02",
    technique="TLA+ spec (VyEmit over VyParser) model-checked by TLC + TLC validation of the observed transpiler output",
)

CHECKS["C18"] = dict(
    text="VyEscape is the product of the transpiler's string-escaping loop with CPython's string-literal scanner, plus "
         "the identifier sanitisers with their character classes extracted from the working tree; TLC checks for every "
         "payload <= 3 over the adversarial alphabet that the literal never closes early and that only [A-Za-z0-9_] "
         "survives in identifiers (MC_Escape). Payloads are injected at every slot kind and as raw programs into the "
         "real transpile(); the AST of the result is projected and TLC decides, with the reference lexer, whether the "
         "payload stayed inside its slot and then Prop_C18 (same Python shape as a benign payload; every identifier "
         "outside the template vocabulary is VAR_/_lambda_ + [A-Za-z0-9_]*).",
    note="Trusted: template vocabulary taken from the same tree's output on benign programs; AST projector in "
         "harness/c18.py; code that does not compile executes nothing (C02's business).",
    ref="DESIGN.md section 6 C18",
    technique="TLA+ spec (VyEscape: escaper x literal scanner, identifier sanitiser) model-checked by TLC + TLC "
              "validation of projected ASTs of transpile() output",
)

CHECKS["C06"] = dict(
    text="TLC checks on the specification that Quote composed with the lexer's string branch, the transpiler's escaping "
         "loop (VyEscape) and Python's literal decoding is the identity, yields one STRING token and a literal that "
         "closes, for every string <= 4 over the escape-relevant alphabet (MC_Quote). The implementation's quotify(s) "
         "text is run as a program and TLC compares the single pushed value with s and the quote text with Quote(s).",
    note="Trusted: VyLexer string branch, VyEscape (escaper + literal decoding of the simple escapes). Strings <= 3/4 "
         "over 10 characters exhaustively, every code-page character in 7 neighbourhoods, random to length 40.",
    ref="DESIGN.md section 6 C06",
    technique="TLA+ spec (VyLexer string branch + VyEscape) model-checked by TLC + TLC comparison of the value pushed "
              "by the quoted text",
)

CHECKS["C19"] = dict(
    text="MC_Online checks the routing design (prints, evaluation of user text, error reporting) in both modes; programs "
         "of the C01 core with every printing element, tainted Python expressions fed to evaluate / call / Vyxal-exec "
         "as literals and as inputs inside every structure, and failing programs x output flags are run through "
         "execute_vyxal(online_mode=True) with fd-level capture of the host's stdout and a canary that executing the "
         "tainted text as Python would trigger; Trace_Machine's verdict X decides the property on those observations "
         "and compares the output record with VyMachine's printed text where the run is inside the machine's domain. "
         "Runs that fail by construction (unbounded recursion, undefined name, empty global array; eagerly and inside "
         "lazily produced items) must end in the error record; odd and malformed literal inputs must not raise.",
    note="Trusted: fd-level capture, the canary (positive control: offline the same program triggers it). Elements that "
         "hand strings to sympy's parser (∆e, ∆E, øḋ on strings) do execute user text even online: they are outside "
         "the property's statement (evaluate, call, input parsing) and are reported in DESIGN.md, not claimed.",
    ref="DESIGN.md section 6 C19",
    technique="TLA+ spec (MC_Online routing design + VyMachine output) model-checked by TLC + TLC validation of online "
              "runs observed through fd capture, canary and the output/error records",
)

CHECKS["C07"] = dict(
    text="VyArith defines + - * / % and floor division on exact rationals over unbounded integers (BigInt/BigNat) and "
         "recognises a result by cross-multiplication; TLC checks these predicates against native exact arithmetic on "
         "every pair of small rationals x 6 operators, rejects perturbed results and wrong witnesses, and checks the "
         "field identities (MC_Arith). Every call of the real overloads on the small domain, on sampled large "
         "rationals and along random expression trees is logged exactly (numerator/denominator digits, type class) "
         "and TLC evaluates ArithOK on it.",
    note="Trusted: BigNat/BigInt limb arithmetic (checked against native arithmetic on the small domain). Modulo uses a "
         "floor witness verified by TLC. Transcribed-function form: the quantifier is over inputs.",
    ref="DESIGN.md section 6 C07",
    technique="TLA+ spec (VyArith over BigInt) model-checked by TLC + TLC evaluation of ArithOK on every logged call",
)

CHECKS["C08"] = dict(
    text="VyVector fixes the pairing structure of vectorisation (scalar/list cases, recursion, zero fill) with the "
         "element as an uninterpreted leaf function; TLC checks it is total and shape preserving for every pair of "
         "argument shapes (MC_Vector). Every documented-vectorising element of the curated table is called on flat and "
         "nested, eager and lazy lists and, separately, on the scalar leaves; TLC rebuilds the expected result from the "
         "leaf results with the specification's pairing structure and compares it with the forced list result.",
    note="Trusted: data/vectorising.json (88 included, 17 excluded with the documented reason); leaf results come from "
         "the same implementation (the property is about the list structure, not about any element's scalar meaning).",
    ref="DESIGN.md section 6 C08",
    technique="TLA+ spec (VyVector pairing structure) model-checked by TLC + TLC reconstruction of every observed list "
              "result from observed leaf results",
)

CHECKS["C09"] = dict(
    text="MC_Machine checks the frame rule as an action property on every element step of every small program "
         "(everything below the element's table arity is unchanged). The real template of every key of the element "
         "table, and of every modifier applied to every key, is executed on a stack of fresh sentinel objects plus "
         "arguments of the table arity; identities and values of all entries before/after are logged and TLC evaluates "
         "Prop_C09 with the per-modifier Touched bound and the whole-stack exemption set of the specification.",
    note="Trusted: runtime table arity; exemption set {W ^ ! „ ‟ Ȯ ¨ẇ, Ė on a string, † when it calls a function}; "
         "the number of results is judged where the template fixes it (process_element's shape, † on a non-function, "
         "v ƒ ɖ ₌ ₍ ~, ß with a falsy condition); runs also under flags r and t; argument tuples for which the "
         "element raises are inapplicable (counted, not judged).",
    ref="DESIGN.md section 6 C09",
    technique="TLA+ action property (FrameRule on VyMachine) model-checked by TLC + TLC evaluation of the frame "
              "predicate on logged stack identities for every table key and modifier",
)

CHECKS["C10"] = dict(
    text="MC_Heap models values as cells with copies as lazy views of their source (as helpers.deep_copy makes them) and "
         "checks that no cell's denotation ever changes as long as no element writes in place (and shows the violation "
         "when one does). Every element of the table is run on arguments built from known plain values (eager, lazy, "
         "shared) and the caller's references are forced afterwards; programs <value> <copy-op> <1..3 elements> are run in "
         "two phases with every reference existing after the copy retained (stack entries, register, global array, "
         "variable); TLC compares each retained reference with the construction value (Trace_Heap).",
    note="Trusted: the construction value is known without observing; function values are outside the quantifier; "
         "argument tuples on which the element raises are inapplicable.",
    ref="DESIGN.md section 6 C10",
    technique="TLA+ spec (MC_Heap: cells, view copies, in-place vs copying writers) model-checked by TLC + TLC comparison "
              "of retained references after every element / element sequence",
)

CHECKS["C14"] = dict(
    text="VyLazyPipe gives every catalogued transformation a demand relation NeedCount(stage, c); MC_Pipe runs the "
         "demand-driven evaluation of Take(n) for every composition of stage kinds and checks termination under weak "
         "fairness, that the source is never over-pulled, and that the demand stays within the composed linear bound. "
         "36 catalogued transformations and admissible compositions of up to 3 are applied to an instrumented infinite "
         "source and read one item at a time under a watchdog; TLC checks every delivery against 2*Need+8.",
    note="Trusted: the stage kind assigned to each transformation (harness/c14.py catalogue) and the value-flow typing "
         "that keeps side conditions (injective source, periodic predicate); slack factor 2, +8.",
    ref="DESIGN.md section 6 C14",
    technique="TLA+ spec (VyLazyPipe demand relations; MC_Pipe with liveness) model-checked by TLC + TLC validation of "
              "pull-count traces of real lazy pipelines",
)

CHECKS["C15"] = dict(
    text="MC_Codec runs the positional encode loop as a machine and checks its loop invariant, digit range, round trip "
         "and absence of a leading zero for every n <= 3000 in 5 bases; VyCodec derives the compression alphabets from "
         "the extracted code page by the documented exclusion. Every call of to_base/from_base and of the number, "
         "string and dictionary compression elements in the tier's domain is logged; compressed literals are run as "
         "programs; TLC checks the round trip, the digit range, the length bound and that the literal text denotes the "
         "value (Horner over unbounded integers).",
    note="Trusted: BigNat (checked against native arithmetic), the run of the literal through the real transpiler. "
         "Transcribed-function form: the quantifier is over inputs. String compression of strings over [a-z ] <= 2/3 "
         "exhaustively.",
    ref="DESIGN.md section 6 C15",
    technique="TLA+ spec (VyCodec, MC_Codec encode machine) model-checked by TLC + TLC evaluation of Horner round trips "
              "on every logged codec call",
)

CHECKS["C16"] = dict(
    text="VyListLaws writes 37 defining laws (sorted permutation, involution, first occurrences, folds, zip with zero "
         "fill, prefixes, sublists, powerset, permutations, cartesian product, grouping, grading, counting ...) as "
         "predicates over arguments and result; MC_ListLaws checks them against definitional results and perturbed "
         "results on every list <= 4 over 4 values (anti-vacuity). Every builtin is called on every integer list of the "
         "tier's domain, eager and lazy, and TLC judges the forced result with the law.",
    note="Trusted: the textbook definitions as written in spec/VyListLaws.tla. Transcribed-function form: the "
         "quantifier is over inputs (lists <= 4/5 over -2..3 exhaustively, random to length 12).",
    ref="DESIGN.md section 6 C16",
    technique="TLA+ law predicates (VyListLaws, sanity-checked by TLC) evaluated by TLC on every logged call of a list "
              "builtin",
)

CHECKS["C17"] = dict(
    text="VyNumTheory gives the textbook definitions (trial-division primality, divisors, Euclid, recurrences, totient "
         "by counting and by the product formula over verified primes, repeated division for binary/hex) and the laws "
         "relating a result to its argument; MC_NumTheory checks that the definitions agree with each other on 1..400. "
         "For every n of the tier's domain and every pair n, m the builtins are called and TLC judges each result with "
         "its law; factorial and binomial are checked by their recurrences on logged neighbours over unbounded integers.",
    note="Trusted: the definitions in spec/VyNumTheory.tla; prime factors / divisors are judged as collections (order "
         "is not part of the definition). Transcribed-function form: the quantifier is over inputs.",
    ref="DESIGN.md section 6 C17",
    technique="TLA+ definitions and laws (VyNumTheory, sanity-checked by TLC) evaluated by TLC on every logged call",
)

NOT_APPLICABLE = {}

DEFAULT_NA = ("check under construction in this round; it will be claimed when its TLA+ module and "
              "conformance driver are committed")


def build():
    ids = []
    with open(os.path.join(VERIF, "properties.jsonl"), encoding="utf-8") as f:
        for line in f:
            if line.strip():
                ids.append(json.loads(line)["id"])
    checks = []
    for pid in ids:
        c = CHECKS.get(pid)
        if not c:
            continue
        checks.append({
            "property_id": pid,
            "quick_cmd": f"bin/check {pid} --tier quick",
            "thorough_cmd": f"bin/check {pid} --tier thorough",
            "evidence_file": f"evidence/{pid}.json",
            "replay_cmd_template": f"bin/check {pid} --replay {{path}}",
            "engine": "tlc",
            "level_claimed": {"category": c.get("category", "model_checking"), "text": c["text"],
                              "design_ref": c["ref"]},
            "level_note": c["note"],
            "technique": c.get("technique", TECH),
        })
    m = {
        "version": 1,
        "setup_cmd": "bin/setup",
        "hooks": {
            "guard": "MATHCAT4_VYXAL2_VERIF",
            "enable": "no source hooks: all instrumentation is harness-side (monkeypatching inside the harness "
                      "process, which sets MATHCAT4_VYXAL2_VERIF=1 for itself); the repository never reads the variable",
            "baseline_off_cmd": "cd /repo && env -u MATHCAT4_VYXAL2_VERIF /venv/bin/python -m pytest -q "
                                "-p no:cacheprovider --timeout=900",
            "source_commits": [],
            "add_only": True,
        },
        "engines": [{
            "name": "tlc", "path": "/opt/veriftools/tla/tla2tools.jar",
            "serves_properties": [c["property_id"] for c in checks],
            "kind_free_text": "TLC 1.8 model checker: exhaustive exploration of the MC_* configurations of the "
                              "TLA+ specification suite in spec/, and validation of implementation traces "
                              "against the Trace_* modules",
        }],
        "checks": checks,
        "notes": "bin/check <id> --tier quick|thorough; VERIF_REPO selects the tree under test (default /repo); "
                 "exit 2 = machinery failure (never a verdict). Known findings: known_findings.json.",
        "not_applicable": [
            {"property_id": i, "reason": NOT_APPLICABLE.get(i, DEFAULT_NA)} for i in ids if i not in CHECKS
        ],
    }
    with open(os.path.join(VERIF, "MANIFEST.json"), "w", encoding="utf-8") as f:
        json.dump(m, f, indent=1, ensure_ascii=False)
        f.write("\n")
    return m


if __name__ == "__main__":
    m = build()
    print("claimed:", [c["property_id"] for c in m["checks"]])
