SPECIFICATION Spec
CONSTANTS
  MaxCells = 4
  AllowInPlace = FALSE
PROPERTY Immutable
CHECK_DEADLOCK FALSE
