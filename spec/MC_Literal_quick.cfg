SPECIFICATION Spec
CONSTANT MaxPayload = 1
INVARIANT ShapeInvariant
INVARIANT OneToken
CHECK_DEADLOCK FALSE
