---- MODULE VyEmit ----
(***************************************************************************)
(* vyxal/transpile.py abstracted to LINE STRUCTURE: the transpiled Python  *)
(* as a sequence of <<indent, kind>> with kind one of                      *)
(*   simple  def  for  while  if  elif  else  if1 (inline if)              *)
(*   else1 (inline elif/else)  break  continue  return                     *)
(* LinesOf(tree, i) follows transpile_structure / transpile_lambda         *)
(* template by template; element and modifier templates enter as data      *)
(* (VyEmitData, extracted from the working tree by the same projector that *)
(* is applied to the transpiler's real output).                            *)
(*                                                                         *)
(* Valid(lines) is Python's block structure:                               *)
(*   R1 a block header is followed by a line indented exactly one deeper;  *)
(*      any other line is at most as deep as its predecessor               *)
(*   R3 else/elif only directly after the block of an if/elif (same indent)*)
(*   R4 break/continue only inside a for/while block with no def between   *)
(*   R5 return only inside a def                                           *)
(* C02 at design level (MC_Emit): Valid(LinesOf(Parse(p))) for every       *)
(* well-formed program -- is the break/recurse lowering by parent always   *)
(* legal where the line lands?                                             *)
(***************************************************************************)
EXTENDS VyParser, VyEmitData

S(i) == <<Ln(i, "simple")>>
Rep(n, x) == [j \in 1..n |-> x]

Shift(ls, i) == [j \in 1..Len(ls) |-> Ln(ls[j].ind + i, ls[j].k)]

Headers == {"def", "for", "while", "if", "elif", "else"}

RECURSIVE LinesOf(_, _)
RECURSIVE NodeLines(_, _)
RECURSIVE EachLines(_, _)

Body(ns, i) == IF ns = <<>> THEN S(i) ELSE LinesOf(ns, i)      \* transpile_ast: "pass" when empty

LambdaLines(body, i) ==
    <<Ln(i, "def"), Ln(i + 1, "if1"), Ln(i + 1, "else1"), Ln(i + 1, "else1")>> \o Rep(5, Ln(i + 1, "simple"))
    \o Body(body, i + 1)
    \o Rep(5, Ln(i + 1, "simple")) \o <<Ln(i + 1, "return"), Ln(i, "simple"), Ln(i, "simple")>>

TokenLines(tok, i) ==
    IF tok.k = "general" THEN Shift(TemplateOf(tok.v), i) ELSE S(i)

(* lambda_wrap: a lambda operand stays itself, anything else is wrapped *)
WrapLines(op, i) == IF op.t = "lam" THEN LambdaLines(op.body, i) ELSE LambdaLines(<<op>>, i)

RECURSIVE IfLines(_, _, _)
IfLines(br, j, i) ==      \* body br[j] at indent i (its condition has been emitted)
    <<Ln(i, "simple"), Ln(i, "if")>> \o Body(br[j], i + 1)
    \o (IF Len(br) - j = 0 THEN <<>>
        ELSE IF Len(br) - j = 1 THEN <<Ln(i, "else")>> \o Body(br[j + 1], i + 1)
        ELSE <<Ln(i, "else")>> \o Body(br[j + 1], i + 1) \o IfLines(br, j + 2, i + 1))

RECURSIVE ItemLines(_, _)
ItemLines(items, i) ==
    IF items = <<>> THEN <<>>
    ELSE <<Ln(i, "def"), Ln(i + 1, "simple")>> \o Body(Head(items), i + 1)
         \o <<Ln(i + 1, "if1"), Ln(i + 1, "return"), Ln(i, "simple"), Ln(i, "if1")>> \o ItemLines(Tail(items), i)

RECURSIVE ParamLines(_, _)
ParamLines(ps, i) == IF ps = <<>> THEN <<>> ELSE S(i) \o ParamLines(Tail(ps), i)

NodeLines(n, i) ==
    CASE n.t \in {"gen", "tok"} -> TokenLines(n.tok, i)
      [] n.t = "if" -> IfLines(n.br, 1, i)
      [] n.t = "for" -> <<Ln(i, "for"), Ln(i + 1, "simple")>> \o Body(n.body, i + 1) \o S(i + 1)
      [] n.t = "while" ->
           Body(n.cond, i) \o <<Ln(i, "simple"), Ln(i, "while"), Ln(i + 1, "simple")>> \o Body(n.body, i + 1)
           \o S(i + 1) \o Body(n.cond, i + 1) \o S(i + 1)
      [] n.t = "fncall" -> S(i)
      [] n.t = "fndef" ->
           <<Ln(i, "def"), Ln(i + 1, "simple")>> \o ParamLines(n.params, i + 1) \o Rep(5, Ln(i + 1, "simple"))
           \o Body(n.body, i + 1) \o Rep(3, Ln(i + 1, "simple")) \o <<Ln(i + 1, "return")>>
      [] n.t = "lam" -> LambdaLines(n.body, i)
      [] n.t = "lmap" -> LambdaLines(n.body, i) \o Shift(TemplateOf(<<e_M>>), i)
      [] n.t = "lfilter" -> LambdaLines(n.body, i) \o Shift(TemplateOf(<<e_F>>), i)
      [] n.t = "lsort" -> LambdaLines(n.body, i) \o Shift(TemplateOf(<<e_sdot>>), i)
      [] n.t = "list" -> S(i) \o ItemLines(n.br, i) \o S(i)
      [] n.t \in {"mon", "dy", "tri"} ->
           EachLines(n.ops, i) \o Shift(ModTemplateOf(n.m), i)
      [] n.t = "break" ->
           CASE n.parent \in {"for", "while"} -> <<Ln(i, "simple"), Ln(i, "break")>>
             [] n.parent = "lam" -> Rep(5, Ln(i, "simple")) \o <<Ln(i, "return")>>
             [] OTHER -> S(i)
      [] n.t = "recurse" ->
           CASE n.parent \in {"for", "while"} -> <<Ln(i, "simple"), Ln(i, "continue")>>
             [] OTHER -> S(i)
      [] OTHER -> <<Ln(i, "error")>>

EachLines(ops, i) ==     \* every operand: its wrapped lambda, then `function_X = pop(...)`
    IF ops = <<>> THEN <<>> ELSE WrapLines(Head(ops), i) \o S(i) \o EachLines(Tail(ops), i)

LinesOf(ns, i) == IF ns = <<>> THEN <<>> ELSE NodeLines(Head(ns), i) \o LinesOf(Tail(ns), i)

ProgramLines(tree) == Body(tree, 0)

---------------------------------------------------------------------------
(* Python block structure                                                  *)

(* the innermost enclosing header of line j: the nearest earlier line with smaller indent *)
Encl(ls, j) ==
    IF \E p \in 1..(j - 1) : ls[p].ind < ls[j].ind
    THEN CHOOSE p \in 1..(j - 1) : ls[p].ind < ls[j].ind /\ \A q \in (p + 1)..(j - 1) : ls[q].ind >= ls[j].ind
    ELSE 0

RECURSIVE InLoop(_, _)
InLoop(ls, j) ==       \* R4
    LET p == Encl(ls, j)
    IN IF p = 0 THEN FALSE
       ELSE IF ls[p].k \in {"for", "while"} THEN TRUE
       ELSE IF ls[p].k = "def" THEN FALSE
       ELSE InLoop(ls, p)
RECURSIVE InDef(_, _)
InDef(ls, j) ==        \* R5
    LET p == Encl(ls, j)
    IN IF p = 0 THEN FALSE ELSE IF ls[p].k = "def" THEN TRUE ELSE InDef(ls, p)

(* previous line at the same indent with nothing shallower in between *)
PrevSibling(ls, j) ==
    IF \E p \in 1..(j - 1) : ls[p].ind = ls[j].ind /\ \A q \in (p + 1)..(j - 1) : ls[q].ind > ls[j].ind
    THEN CHOOSE p \in 1..(j - 1) : ls[p].ind = ls[j].ind /\ \A q \in (p + 1)..(j - 1) : ls[q].ind > ls[j].ind
    ELSE 0

Valid(ls) ==
    /\ ls # <<>> /\ ls[1].ind = 0
    /\ \A j \in 1..Len(ls) : ls[j].k # "error"
    /\ \A j \in 1..(Len(ls) - 1) :
          IF ls[j].k \in Headers THEN ls[j + 1].ind = ls[j].ind + 1          \* R1 (and R2: no empty block)
          ELSE ls[j + 1].ind <= ls[j].ind
    /\ ls[Len(ls)].k \notin Headers
    /\ \A j \in 1..Len(ls) :
          /\ (ls[j].k \in {"else", "elif", "else1"} =>                       \* R3
                LET p == PrevSibling(ls, j) IN p # 0 /\ ls[p].k \in {"if", "elif", "if1", "else1"})
          /\ (ls[j].k \in {"break", "continue"} => InLoop(ls, j))            \* R4
          /\ (ls[j].k = "return" => InDef(ls, j))                             \* R5
====
