---- MODULE MC_Literal ----
(***************************************************************************)
(* C03 at design level: in the reference lexer+parser, the payload of a    *)
(* literal never changes how the rest of the program is grouped.           *)
(*                                                                         *)
(* The environment chooses a context (program text with one hole, from     *)
(* the generated module MC_LiteralData), a literal kind, and feeds payload *)
(* characters one at a time (action Feed) from the syntax-significant      *)
(* alphabet.  In every state whose payload has a legal length for the kind *)
(* the shape of the parse must equal the shape with a neutral payload.     *)
(***************************************************************************)
EXTENDS VyParser, MC_LiteralData

CONSTANT MaxPayload

Kinds == {"string", "twochar", "char", "cstring", "cnumber", "cpnumber", "comment"}

LegalLen(kind, n) ==
    CASE kind = "twochar" -> n = 2
      [] kind \in {"char", "cpnumber"} -> n = 1
      [] OTHER -> TRUE

Literal(kind, p) ==
    CASE kind = "string" -> <<c_btick>> \o p \o <<c_btick>>
      [] kind = "twochar" -> <<c_two_str>> \o p
      [] kind = "char" -> <<c_bslash>> \o p
      [] kind = "cstring" -> <<c_laquo>> \o p \o <<c_laquo>>
      [] kind = "cnumber" -> <<c_raquo>> \o p \o <<c_raquo>>
      [] kind = "cpnumber" -> <<c_sup_plus>> \o p
      [] OTHER -> <<c_hash>> \o p \o <<c_nl>>

Neutral(kind, n) == [i \in 1..n |-> 97]

RECURSIVE Fill(_, _)
Fill(ctx, lit) ==
    IF ctx = <<>> THEN <<>>
    ELSE IF Head(ctx) = 0 THEN lit \o Fill(Tail(ctx), lit)
    ELSE <<Head(ctx)>> \o Fill(Tail(ctx), lit)

VARIABLES ctx, kind, payload
vars == <<ctx, kind, payload>>

Init == ctx \in Contexts /\ kind \in Kinds /\ payload = <<>>
Feed(c) == /\ Len(payload) < MaxPayload
           /\ payload' = Append(payload, c)
           /\ UNCHANGED <<ctx, kind>>
Next == \E c \in PayloadAlphabet : Feed(c)
Spec == Init /\ [][Next]_vars

ShapeInvariant ==
    LegalLen(kind, Len(payload)) =>
        ShapeSeq(ParseText(Fill(ctx, Literal(kind, payload))))
          = ShapeSeq(ParseText(Fill(ctx, Literal(kind, Neutral(kind, Len(payload))))))

(* the literal is lexed as exactly one token of its kind (or none, for a comment) *)
OneToken ==
    LegalLen(kind, Len(payload)) =>
        LET ts == Lex(Literal(kind, payload))
        IN IF kind = "comment" THEN ts = <<>> ELSE Len(ts) = 1 /\ ts[1].k # "general"
====
