"""Program generators shared by the drivers (C01, C02, C03, C04, C12 ...).

Two kinds:
  * exhaustive(alphabet, n): every string of <= n symbols over a list of
    symbol strings (dumb enumeration; the specification decides which of
    them are well-formed);
  * Gen(rng, ...).program(depth): random programs from the structure grammar
    (documents/specs/Structures.md) over a chosen element core.
"""
from __future__ import annotations

import itertools

STRUCT_ALPHABET = ["1", "+", "f", ":", "|", "[", "]", "(", ")", "{", "}", "λ", "ƛ",
                   ";", "⟨", "⟩", "@", "v", "₌", "X", "x"]


def exhaustive(alphabet, n, min_len=0):
    for k in range(min_len, n + 1):
        for tup in itertools.product(alphabet, repeat=k):
            yield "".join(tup)


CLOSERS = "])};⟩"

MONADIC_MODS = "v⁽&~ßƒɖ"
DYADIC_MODS = "₌‡₍"
TRIADIC_MODS = "≬"


class Gen:
    """Random structured programs.

    atoms      : list of element strings usable as single statements
    niladic    : atoms that push without popping (used to seed stacks)
    structures : subset of kinds to use
    """

    def __init__(self, rng, atoms, literals=("1", "2", "3", "0", "10"), kinds=None,
                 mods=MONADIC_MODS + DYADIC_MODS + TRIADIC_MODS, ctl=True, names=("a", "b", "f", "g"),
                 strings=False):
        self.r = rng
        self.atoms = list(atoms)
        self.literals = list(literals)
        self.kinds = kinds or ["if", "for", "while", "lam", "lmap", "lfilter", "lsort",
                               "fn", "list", "mod", "var", "atom", "lit", "ctl"]
        if not ctl and "ctl" in self.kinds:
            self.kinds.remove("ctl")
        self.mods = mods
        self.names = names
        self.strings = strings
        self.defined = []

    def lit(self):
        if self.strings and self.r.random() < 0.25:
            k = self.r.random()
            if k < 0.15:
                return self.r.choice(["«ab«", "»1a»", "«x«", "»»"])
            body = "".join(self.r.choice(["a", "b", " ", "x", "\\`", "\\n", "\\\\", "|", ";", "]"])
                           for _ in range(self.r.randint(0, 3)))
            return "`" + body + "`"
        return self.r.choice(self.literals) + " "

    def atom(self):
        return self.r.choice(self.atoms)

    def seq(self, depth, lo=1, hi=4):
        return "".join(self.stmt(depth) for _ in range(self.r.randint(lo, hi)))

    def element(self, depth):
        """one parser-level element (what a modifier takes as operand)"""
        k = self.r.random()
        if depth <= 0 or k < 0.6:
            return self.atom()
        if k < 0.75:
            return self.lit()
        return self.struct(depth - 1)

    def struct(self, depth):
        kind = self.r.choice([k for k in self.kinds if k not in ("atom", "lit", "ctl", "var")])
        return self.of_kind(kind, depth)

    def stmt(self, depth):
        if depth <= 0:
            kind = self.r.choice(["atom", "atom", "lit", "var" if "var" in self.kinds else "atom"])
        else:
            kind = self.r.choice(self.kinds + ["atom", "atom", "lit", "lit"])
        return self.of_kind(kind, depth)

    def of_kind(self, kind, depth):
        r = self.r
        d = depth - 1
        if kind == "atom":
            return self.atom()
        if kind == "lit":
            return self.lit()
        if kind == "ctl":
            return r.choice("Xx")
        if kind == "var":
            n = r.choice(self.names)
            return r.choice(["→", "←"]) + n + " "
        if kind == "if":
            nb = r.choice([1, 2, 2, 3, 4])
            return "[" + "|".join(self.seq(d, 0, 3) for _ in range(nb)) + "]"
        if kind == "for":
            v = r.choice(["", "", r.choice(self.names) + "|"])
            return "(" + v + self.seq(d, 0, 3) + ")"
        if kind == "while":
            c = r.choice(["", self.seq(d, 1, 2) + "|"])
            return "{" + c + self.seq(d, 0, 3) + "}"
        if kind == "lam":
            a = r.choice(["", "", "0|", "1|", "2|", "3|"])
            return "λ" + a + self.seq(d, 0, 3) + ";"
        if kind in ("lmap", "lfilter", "lsort"):
            return {"lmap": "ƛ", "lfilter": "'", "lsort": "µ"}[kind] + self.seq(d, 0, 3) + ";"
        if kind == "fn":
            if self.defined and r.random() < 0.5:
                return "@" + r.choice(self.defined) + ";"
            name = r.choice(self.names)
            params = "".join(":" + r.choice(["1", "2", "0", r.choice(self.names)])
                             for _ in range(r.randint(0, 2)))
            self.defined.append(name)
            return "@" + name + params + "|" + self.seq(d, 0, 3) + ";"
        if kind == "list":
            n = r.randint(0, 3)
            return "⟨" + "|".join(self.seq(d, 0, 2) for _ in range(n)) + "⟩"
        if kind == "mod":
            m = r.choice(self.mods)
            k = 1 if m in MONADIC_MODS else 2 if m in DYADIC_MODS else 3
            return m + "".join(self.element(d) for _ in range(k))
        raise ValueError(kind)

    def program(self, depth=3, lo=1, hi=5):
        self.defined = []
        return self.seq(depth, lo, hi)


class MachineGen:
    """Programs over the closed core of spec/VyMachine.tla, shaped so that most of
    them stay inside the written rules (integers / integer lists) and so that
    lazily evaluated lambda bodies (ƛ ' µ, M F ṡ, v ~ ɖ operands) are PURE
    (no printing, no ?, no register / global array / variables, no X x)."""

    def __init__(self, rng, ctl=True, names=("a", "b", "c")):
        self.r = rng
        self.ctl = ctl
        self.names = names
        self.fn_defined = []
        self.vars_set = []

    # ---- expressions (leave one value) ----
    def lit(self):
        return self.r.choice(["0 ", "1 ", "2 ", "3 ", "4 ", "5 ", "10 "])

    def int_expr(self, d, pure=False):
        r = self.r
        k = r.random()
        if d <= 0 or k < 0.3:
            ch = ["lit", "lit", "n"]
            if not pure:
                ch += ["?", "!", "¥", "var"]
            c = r.choice(ch)
            if c == "lit":
                return self.lit()
            if c == "var":
                return ("←" + r.choice(self.vars_set) + " ") if self.vars_set else self.lit()
            return c
        if k < 0.55:
            return self.int_expr(d - 1, pure) + self.int_expr(d - 1, pure) + r.choice("+-*=<>∧∨+-*%ḭ≠≤≥∴∵ε")
        if k < 0.7:
            return self.int_expr(d - 1, pure) + r.choice("›‹Nd¬ḃ²±ȧ∷⌐₂₃d½")
        if k < 0.85:
            return self.list_expr(d - 1, pure) + r.choice("∑LhtGgΠ≈aA₂₃")
        if k < 0.9:
            return self.list_expr(d - 1, pure) + self.int_expr(d - 1, pure) + r.choice("cO")
        return self.int_expr(d - 1, pure) + self.int_expr(d - 1, pure) + "$_"

    def pure_body(self, d):
        """body of a lazily evaluated lambda: works on its argument (n / implicit input)"""
        r = self.r
        k = r.random()
        if k < 0.35:
            return r.choice(["›", "‹", "d", "N", "2 *", "1 +", "n+", "3 <", "2 >", "0 =", ":*", "n n*+"])
        if k < 0.6:
            return self.int_expr(min(d, 1), pure=True) + r.choice("+-*<>=")
        if k < 0.75:
            return "[" + self.int_expr(0, True) + "|" + self.int_expr(0, True) + "]"
        if k < 0.85:
            return "ɾ∑"
        return self.int_expr(min(d, 1), pure=True)

    def list_expr(self, d, pure=False):
        r = self.r
        k = r.random()
        if d <= 0 or k < 0.3:
            c = r.choice(["range", "range", "lit", "lit", "wrap"])
            if c == "range":
                return r.choice(["3 ", "4 ", "5 ", "2 "]) + r.choice("ɾʁɾʁʀɽ")
            if c == "wrap":
                return self.int_expr(0, pure) + "w"
            n = r.randint(0, 4)
            return "⟨" + "|".join(self.int_expr(0, pure).strip() for _ in range(n)) + "⟩"
        if k < 0.4:
            return self.list_expr(d - 1, pure) + self.list_expr(d - 1, pure) + r.choice(["J", "+", "-", "*", "\""])
        if k < 0.5:
            return self.list_expr(d - 1, pure) + self.int_expr(d - 1, pure) + r.choice(["+", "*", "J", "<", "=", "p", "%", "ḭ", "≤", "≥", "-"])
        if k < 0.6:
            return self.list_expr(d - 1, pure) + r.choice(["Ṙ", "U", "f", "s", "›", "d", "N", "Ḣ", "Ṫ", "ż", "ẏ", "¯", "¦", "²", "±",
                                                             "ȧ", "∷", "⌐", "ḣ_", "ṫ_", "ḣ$_", "ṫ$_w"])
        if k < 0.75:
            return self.list_expr(d - 1, pure) + r.choice(["ƛ", "'", "µ"]) + self.pure_body(d - 1) + ";"
        if k < 0.8:
            return self.list_expr(d - 1, pure) + "λ" + self.pure_body(d - 1) + ";" + r.choice("MF")
        if k < 0.86:
            return self.list_expr(d - 1, pure) + r.choice(["ƒ+", "ƒ*", "ɖ+", "ƒ-", "λ2|+;R", "λ2|*;R"])
        if k < 0.93:
            return self.list_expr(d - 1, pure) + "v" + r.choice(["›", "d", "N", "‹"])
        return self.int_expr(d - 1, pure) + "ɾ" + r.choice(["ƛd;", "'2<;", "v›", "~›"])

    def str_expr(self, d, pure=False):
        """text values: plain ASCII literals of the three kinds, concatenations with text and numbers,
        reversal, first / last character, sums of lists of texts"""
        r = self.r
        k = r.random()
        if d <= 0 or k < 0.45:
            return r.choice(["`ab`", "`x y`", "‛hi", "\\a", "`Hello`", "``", "`a`", "`12`", "`it's`", "`\"`", "\\ ", "\\`"])
        if k < 0.65:
            return self.str_expr(d - 1, pure) + self.str_expr(d - 1, pure) + r.choice(["+", "J", "p", "+"])
        if k < 0.8:
            a, b = self.str_expr(d - 1, pure), self.int_expr(d - 1, pure)
            return (a + b if r.random() < 0.5 else b + a) + r.choice(["+", "J", "+"])
        if k < 0.9:
            return self.str_expr(d - 1, pure) + r.choice(["Ṙ", "h", "t", "Ḣ", "Ṙ"])
        return "⟨" + "|".join(self.str_expr(0, pure) for _ in range(r.randint(1, 3))) + "⟩∑"

    def expr(self, d, pure=False):
        k = self.r.random()
        if k < 0.12:
            return self.str_expr(d, pure)
        if k < 0.17:       # comparisons / measurements of text leave numbers; lists holding text
            return self.r.choice([self.str_expr(d - 1, pure) + self.str_expr(d - 1, pure) + self.r.choice("=<>≤≥≠"),
                                  self.str_expr(d, pure) + self.r.choice(["L", "₂", "₃", "¬", "ḃ"]),
                                  "⟨" + self.str_expr(0, pure) + "|" + self.int_expr(0, pure).strip() + "⟩",
                                  self.str_expr(d, pure) + "w" + self.int_expr(0, pure) + "J"])
        return self.list_expr(d, pure) if k < 0.5 else self.int_expr(d, pure)

    # ---- statements ----
    def stmt(self, d, in_loop=False, in_lambda=False):
        r = self.r
        k = r.random()
        if d <= 0 or k < 0.30:
            c = r.choice(["print", "print", "keep", "set", "reg", "garr", "drop", "push", "push", "dup", "stackop"])
            e = self.expr(1)
            if c == "print":
                return e + r.choice([",", ",", "₴", "…"])
            if c == "keep":
                return e
            if c == "set":
                v = r.choice(self.names)
                self.vars_set.append(v)
                return e + "→" + v + " "
            if c == "reg":
                return e + "£"
            if c == "garr":
                return e + r.choice(["⅛", "⅛¾", "⅛¼"])
            if c == "drop":
                return e + "_"
            if c == "dup":
                return e + r.choice([":", "D", ":+", "D++"])
            if c == "stackop":
                return r.choice(["W", "^", "!", "$", "\"", "W∑"])
            return e
        if k < 0.42:
            nb = r.choice([1, 2, 2, 3, 4])
            return self.int_expr(1) + "[" + "|".join(self.block(d - 1, in_loop, in_lambda, 0, 2) for _ in range(nb)) + "]"
        if k < 0.54:
            v = r.choice(["", "", r.choice(self.names) + "|"])
            if v:
                self.vars_set.append(v[0])
            return self.expr(1) + "(" + v + self.block(d - 1, True, in_lambda, 0, 3) + ")"
        if k < 0.60:
            # bounded while: counter on the stack
            return r.choice(["3 ", "2 ", "4 "]) + "{:|" + self.block(d - 1, True, in_lambda, 0, 2, keep=True) + "‹}_"
        if k < 0.70:
            ar = r.choice(["", "1|", "2|", "0|", "3|"])
            return self.expr(1) + self.expr(0) + "λ" + ar + self.block(d - 1, False, True, 0, 3) + ";†"
        if k < 0.78:
            if self.fn_defined and r.random() < 0.6:
                return self.expr(0) + self.expr(0) + "@" + r.choice(self.fn_defined) + ";"
            if in_lambda or in_loop:
                return self.expr(1) + ","
            name = r.choice(["f", "g", "h"])
            params = "".join(":" + r.choice(["1", "2", "0", "p", "q"]) for _ in range(r.randint(0, 2)))
            body = self.block(d - 1, False, True, 0, 3)
            if "p" in params and r.random() < 0.7:
                body = "←p " + body
            self.fn_defined.append(name)
            return "@" + name + params + "|" + body + ";"
        if k < 0.84:
            n = r.randint(0, 3)
            return "⟨" + "|".join(self.item(d - 1) for _ in range(n)) + "⟩"
        if k < 0.94:
            m = r.choice(["&", "&", "₌", "₍", "ß", "~", "⁽", "‡", "≬", "v", "ƒ", "ɖ"])
            if m == "&":
                return self.expr(0) + "&" + r.choice(["›", "d", "+", "N"])
            if m in "₌₍":
                return self.int_expr(0) + self.int_expr(0) + m + r.choice("+-*›d") + r.choice("+-*‹N")
            if m == "ß":
                return self.int_expr(0) + self.int_expr(1) + "ß" + r.choice(["›", "d", ",", "λ1+;"])
            if m == "~":
                return self.int_expr(0) + self.int_expr(0) + "~" + r.choice("+-*<")
            if m == "⁽":
                return self.int_expr(0) + "⁽" + r.choice("›dN") + "†"
            if m == "‡":
                return self.int_expr(0) + "‡" + r.choice("›dN") + r.choice("›dN") + "†"
            if m == "≬":
                return self.int_expr(0) + "≬" + r.choice("›dN") + r.choice("›dN") + r.choice("›dN") + "†"
            if m == "v":
                return self.list_expr(0) + self.int_expr(0) + "v" + r.choice("+-*")
            return self.list_expr(1) + m + r.choice("+-*")
        if self.ctl and (in_loop or in_lambda):
            return r.choice(["X", "x"]) if in_loop else "X"
        return self.expr(1)

    def item(self, d):
        return self.expr(min(d, 1)).strip() if self.r.random() < 0.8 else self.r.choice([":", "+", "_", "n", "!"])

    def block(self, d, in_loop, in_lambda, lo, hi, keep=False):
        n = self.r.randint(lo, hi)
        s = "".join(self.stmt(d, in_loop, in_lambda) for _ in range(n))
        return s

    def program(self, depth=3, lo=1, hi=4):
        self.fn_defined = []
        self.vars_set = []
        return self.block(depth, False, False, lo, hi)
