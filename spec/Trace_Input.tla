---- MODULE Trace_Input ----
(***************************************************************************)
(* C11: a read history generated from VyInput's actions is compiled to a   *)
(* Vyxal program by the harness, run on the implementation, and the        *)
(* implementation's reads are logged at the return of the outermost        *)
(* get_input (kind, depth, value).  TLC replays the history on VyInput and *)
(* compares:  Prop_C11  observed reads = specified deliveries (value, kind,*)
(* depth, order);  the printed text (every delivered value is printed).    *)
(* Returning from a lambda with an empty stack performs one more implicit  *)
(* read in the lambda's scope (the result pop): the replay inserts it.     *)
(***************************************************************************)
EXTENDS VyInput, VyValues, Json, IOUtils, TLC, TLCExt

BatchFile == JsonDeserialize(IOEnv.TRACE_FILE)
ASSUME TLCSet(7, BatchFile)
Batch == TLCGet(7)

VARIABLES tid, l, s, kinds, verdict
tvars == <<tid, l, s, kinds, verdict>>
T == Batch[tid]

Init == /\ tid \in 1..Len(Batch) /\ l = 1
        /\ s = InitInput(T.inputs) /\ kinds = <<>> /\ verdict = "ok"

PairStr(a, b) == ListOpen \o a \o ListSep \o b \o ListClose
LastN(seq, k) == SubSeq(seq, Len(seq) - k + 1, Len(seq))

(* a value >= 100 stands for a two-item list (156 is <<5, 6>>): an argument that is itself a list *)
ValStr(v) == IF v >= 100 THEN PairStr(IntStr((v - 100) \div 10), IntStr(v % 10))
             ELSE IF v = 99 THEN ListOpen \o ListClose ELSE IntStr(v)         \* 99 stands for the empty list

(* what the program prints for one history item, given the state after it *)
Printed(h, s2) ==
    LET d == s2.delivered
    IN CASE h.a = "E" -> ValStr(d[Len(d)].v) \o <<10>>
         [] h.a = "P" /\ h.k = 1 -> ValStr(d[Len(d)].v) \o <<10>>
         [] h.a = "P" /\ h.k = 2 -> PairStr(ValStr(d[Len(d)].v), ValStr(d[Len(d) - 1].v)) \o <<10>>
         [] h.a = "P" /\ h.k = 3 ->
              PairStr(ValStr(d[Len(d)].v), PairStr(ValStr(d[Len(d) - 1].v), ValStr(d[Len(d) - 2].v))) \o <<10>>
         [] OTHER -> <<>>

VARIABLE text
Init2 == Init /\ text = <<>>

Step ==
    /\ l <= Len(T.hist)
    /\ LET h == T.hist[l]
           \* a call whose last `miss` arguments were not pushed takes them by implicit reads in the CALLER's
           \* scope; they arrive below the pushed ones, so the new scope is <<d_miss .. d_1>> \o pushed
           miss == IF h.a \in {"L", "F"} /\ "miss" \in DOMAIN h THEN h.miss ELSE 0
           s1 == Times(DoImplicit, miss, s)
           got == [i \in 1..miss |-> s1.delivered[Len(s1.delivered) - i + 1].v]
           s2 == IF h.a = "X" /\ kinds[Len(kinds)] = "L" THEN DoLeave(DoImplicit(s))
                 ELSE IF miss > 0 THEN DoEnter(s1, got \o h.args)
                 ELSE Apply(s, h)
       IN /\ s' = s2
          /\ text' = text \o Printed(h, s2)
          /\ kinds' = IF h.a \in {"L", "F"} THEN Append(kinds, h.a)
                      ELSE IF h.a = "X" THEN SubSeq(kinds, 1, Len(kinds) - 1) ELSE kinds
    /\ l' = l + 1
    /\ UNCHANGED <<tid, verdict>>

ObsReads == [i \in 1..Len(T.reads) |-> [v |-> T.reads[i].v, depth |-> T.reads[i].depth, kind |-> T.reads[i].kind]]

(* the end of every program pops the implicit output: one more implicit read at top level *)
FinalState == DoImplicit(s)
Prop_C11 == ObsReads = FinalState.delivered

Decide ==
    /\ l = Len(T.hist) + 1
    /\ verdict' = IF T.raised # "" THEN "violation:raised-" \o T.raised
                  ELSE IF ~Prop_C11 THEN "violation:delivered-sequence"
                  ELSE IF T.out # text THEN "violation:printed-values"
                  ELSE IF ~CyclicStream(T.inputs, FinalState) THEN "specviolation:cyclic"
                  ELSE "ok"
    /\ PrintT(<<"V", tid, verdict'>>)
    /\ l' = l + 1
    /\ UNCHANGED <<tid, s, kinds, text>>

Next == Step \/ Decide
====
