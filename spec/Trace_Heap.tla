---- MODULE Trace_Heap ----
(***************************************************************************)
(* C10 on the implementation: after an element (or a short element         *)
(* sequence) ran, every reference the caller retained is forced and logged *)
(*   refs: sequence of [name, built (the plain value it was built from),   *)
(*         after (its forced value now)]                                   *)
(* Prop_C10: after = built for every retained reference.                   *)
(* Function values (mutable stored arity) are outside the quantifier.      *)
(***************************************************************************)
EXTENDS Integers, Sequences, Json, IOUtils, TLC, TLCExt

BatchFile == JsonDeserialize(IOEnv.TRACE_FILE)
ASSUME TLCSet(7, BatchFile)
Batch == TLCGet(7)

VARIABLES tid, phase
T == Batch[tid]

Changed(t) == {i \in 1..Len(t.refs) : t.refs[i].after # t.refs[i].built}

Verdict(t) ==
    IF t.raised # "" THEN "skip:inapplicable-" \o t.raised
    ELSE IF Changed(t) # {} THEN "violation:value-changed:" \o t.refs[CHOOSE i \in Changed(t) : TRUE].name
    ELSE "ok"

Init == tid \in 1..Len(Batch) /\ phase = "start"
Decide == /\ phase = "start" /\ phase' = "done" /\ tid' = tid
          /\ PrintT(<<"V", tid, Verdict(T)>>)
Next == Decide
====
