"""C13 A finite lazy list is indistinguishable from the list it enumerates.

Spec:  MC_LazyList -- Impl (memoising cursor, method by method) refines Abs
       (plain list) for every source <= 3 over {0,1,2} and every history.
Bind:  spec -> code: every observation path of length <= k over the
       specification's 33 parametrised operations is stepped through a fresh
       real LazyList; code -> spec: the logged answers and caches are
       validated by Trace_LazyList (Prop_C13 on the answers, lock-step cache
       conformance).
"""
from __future__ import annotations

import itertools
import time

from . import common, tlc

PID = "C13"


def O(name, a=0, b=0, c=0):
    return {"op": name, "a": a, "b": b, "c": c}


OPS = (
    [O("Index", i) for i in (0, 1, 2, 4)] + [O("NegIndex", k) for k in (1, 2)]
    + [O("SliceTo", 0, 2, 1), O("SliceTo", 1, 3, 1), O("SliceTo", 0, 4, 2), O("SliceTo", 1, 5, 1)]
    + [O("SliceNegStop", 0, 1, 1)]
    + [O("SliceFrom", 0, 0, 1), O("SliceFrom", 1, 0, 1), O("SliceFrom", 0, 0, 2)]
    + [O("Len"), O("Iter"), O("Bool"), O("Listify"), O("Reversed"), O("Copy")]
    + [O("Contains", 0), O("Contains", 2), O("Eq", 0), O("Eq", 1), O("Eq", 2), O("Eq", 3), O("Eq", 4), O("Eq", 5), O("Eq", 6), O("Eq", 7), O("Eq", 8), O("Eq", 7, 1), O("Count", 1)]
    + [dict(O("Index", 3), big=True), dict(O("Index", 5), big=True)]
    + [O("HasInd", i) for i in (0, 2, 3)]
    + [O("IterTake", 1), O("IterDrain"), O("CopyIndex", 0), O("CopyIndex", 1), O("CopyList")]
)


def tag(v):
    from vyxal.LazyList import LazyList

    if isinstance(v, bool):
        return {"i": int(v)}
    if isinstance(v, int):
        return {"i": v}
    if isinstance(v, LazyList):
        return tag(v.listify())
    if isinstance(v, (list, tuple)):
        if all(isinstance(x, int) and not isinstance(x, bool) for x in v):
            return {"l": list(v)}
        return {"e": "non-int-items"}
    return {"e": "type:" + type(v).__name__}


def do_op(L, src, o, aux=None):
    from vyxal.helpers import deep_copy

    aux = aux if aux is not None else {}
    op, a, b, c = o["op"], o["a"], o["b"], o["c"]
    if op in ("IterTake", "IterDrain"):
        if aux.get("it") is None:
            aux["it"] = iter(L)
        out = []
        n = a if op == "IterTake" else 10 ** 6
        for _ in range(n):
            try:
                out.append(next(aux["it"]))
            except StopIteration:
                break
        if op == "IterDrain":
            aux["it"] = None
        return out
    if op in ("CopyIndex", "CopyList"):
        if aux.get("cp") is None:
            aux["cp"] = deep_copy(L)
        return aux["cp"][a] if op == "CopyIndex" else aux["cp"].listify()
    if op == "Index":
        # positions are arbitrary-precision integers: when the logged position is beyond the end, the call uses
        # a position far beyond the machine word that is congruent to it (indexing wraps around)
        if o.get("big") and len(src) > 0 and a >= len(src):
            return L[a + len(src) * 2 ** 64]
        return L[a]
    if op == "NegIndex":
        return L[-a]
    if op == "SliceTo":
        return L[a:b:c]
    if op == "SliceNegStop":
        return L[a:-b:c]
    if op == "SliceFrom":
        return L[a::c]
    if op == "Len":
        return len(L)
    if op == "Iter":
        return list(iter(L))
    if op == "Bool":
        return bool(L)
    if op == "Listify":
        return L.listify()
    if op == "Reversed":
        return L.reversed()
    if op == "Copy":
        return deep_copy(L)
    if op == "Contains":
        return a in L
    if op == "Eq":
        partner = {1: list(src), 5: list(src), 0: list(src) + [9], 2: list(src)[:-1], 6: list(src)[:-1], 3: [],
                   4: (list(src)[:-1] + [9]) if src else [9], 7: list(src), 8: list(src)}[a]
        from vyxal.LazyList import LazyList

        if a in (7, 8):
            # an equal lazy partner that has itself been observed already (first item / everything)
            P = LazyList(iter(partner))
            if partner:
                _ = P[0] if a == 7 else len(P)
            return (L == P) if b == 0 else (P == L)
        return L == (LazyList(iter(partner)) if a in (5, 6) else partner)
    if op == "Count":
        return L.count(a)
    if op == "HasInd":
        return L.has_ind(a)
    raise ValueError(op)


def run_path(case):
    src, path = case
    from vyxal.LazyList import LazyList

    # the raw source is an iterator, a generator, or (as in every deep_copy) an itertools.tee object
    from vyxal.helpers import deep_copy
    kind = (len(path) + sum(src)) % 3
    if kind == 0:
        L = LazyList(iter(list(src)))
    elif kind == 1:
        L = LazyList(x for x in list(src))
    else:
        L = deep_copy(list(src))
    ops = []
    aux = {}
    for o in path:
        try:
            res = common.with_alarm(lambda _: tag(do_op(L, src, o, aux)), None, 5)
        except common.CaseTimeout:
            res = {"e": "hang"}
        except Exception as e:  # noqa: BLE001
            res = {"e": type(e).__name__}
        gen = [x if isinstance(x, int) and not isinstance(x, bool) else -999 for x in L.generated]
        ops.append({**o, "res": res, "gen": gen})
    return {"src": list(src), "ops": ops}


def cases(tier, rng):
    out = []
    srcs = [list(t) for n in range(0, 4) for t in itertools.product((0, 1, 2), repeat=n)]
    depth = 2 if tier == "quick" else 3
    for src in srcs:
        for k in range(1, depth + 1):
            if k < depth:
                continue  # prefixes of longer paths are covered by them
            for path in itertools.product(OPS, repeat=k):
                out.append((src, list(path)))
    # histories around a SUSPENDED iterator / a kept copy (deterministic, every source): start it, let another
    # observation grow the cache, then continue it
    starts = [O("IterTake", 1), O("CopyIndex", 0), O("IterTake", 2), O("Copy")]
    grows = [O("Index", 2), O("Len"), O("Listify"), O("NegIndex", 1), O("Index", 1), O("SliceTo", 0, 2, 1), O("Contains", 2), O("Bool")]
    ends = [O("IterDrain"), O("CopyList"), O("IterTake", 2), O("IterTake", 1), O("CopyIndex", 1)]
    for src in srcs:
        for a in starts:
            for b in grows:
                for c in ends:
                    out.append((src, [dict(a), dict(b), dict(c)]))
                    for g1 in (O("Index", 0), O("Bool"), O("Index", 1)):      # a little is cached BEFORE the iterator starts
                        out.append((src, [dict(g1), dict(a), dict(b), dict(c)]))
    nr = 3000 if tier == "quick" else 100000
    for _ in range(nr):
        n = rng.randint(0, 8)
        src = [rng.randint(0, 2) for _ in range(n)]
        path = []
        for _ in range(rng.randint(3, 12)):
            o = dict(rng.choice(OPS))
            if o["op"] in ("Index", "HasInd", "CopyIndex"):
                o["a"] = rng.randint(0, 10)
                if o["op"] == "Index" and rng.random() < 0.3:
                    o["big"] = True
            elif o["op"] == "IterTake":
                o["a"] = rng.randint(1, 4)
            elif o["op"] == "NegIndex":
                o["a"] = rng.randint(1, 9)
            elif o["op"] in ("SliceTo",):
                o["a"], o["b"], o["c"] = rng.randint(0, 5), rng.randint(0, 10), rng.randint(1, 3)
            elif o["op"] == "SliceNegStop":
                o["a"], o["b"], o["c"] = rng.randint(0, 4), rng.randint(1, 5), rng.randint(1, 2)
            elif o["op"] == "SliceFrom":
                o["a"], o["c"] = rng.randint(0, 6), rng.randint(1, 3)
            elif o["op"] in ("Contains", "Count"):
                o["a"] = rng.randint(0, 3)
            path.append(o)
        out.append((src, path))
    return out


def main(tier):
    t0 = time.time()
    rng = common.rng(13)
    V = common.Verdicts(PID)
    with common.Scratch(PID) as s:
        mc = tlc.model_check(s, "MC_LazyList", cfg="MC_LazyList", workers=16)
        if not mc["ok"]:
            V.add("spec:MC_LazyList:" + str(mc["violated"]), {"trace": tlc.counterexample(mc["out"])})
        cs = cases(tier, rng)
        common.import_repo()
        obs = common.pool_map(run_path, cs, initfn=common.import_repo)
        common.retry_hangs(cs, obs, run_path)      # a watchdog firing under load is re-observed alone, with longer alarms
        verdicts, st = tlc.validate(s, "Trace_LazyList", obs, cfg="Trace_LazyList.cfg", chunk=5000)
    tally = {}
    for (src, path), v, o in zip(cs, verdicts, obs):
        head = v.split(":")[0]
        tally[head + ":" + v.split(":")[1].split("@")[0] if ":" in v else v] = tally.get(
            head + ":" + v.split(":")[1].split("@")[0] if ":" in v else v, 0) + 1
        if head == "violation":
            at = int(v.split("@")[1])
            hist = [f"{p['op']}({p['a']},{p['b']},{p['c']})" for p in path[:at]]
            # canonical signature: the operation that answered wrongly and the shortest history kind
            V.add(f"{path[at - 1]['op']}:after:{'+'.join(sorted(set(p['op'] for p in path[:at - 1]))) or 'nothing'}"
                  f":src-len-{len(src)}",
                  {"src": src, "history": hist, "answers": [p["res"] for p in o["ops"][:at]], "verdict": v})
        elif head == "drift":
            V.add_drift({"src": src, "verdict": v, "history": [p["op"] for p in path]})
    rc = V.finish()
    common.write_evidence(
        PID, tier, t0,
        {
            "states": mc["distinct"], "transitions": mc["generated"],
            "traces_validated_against_impl": len(cs),
            "samples": [{"src": src, "history": [f"{p['op']}({p['a']},{p['b']},{p['c']})" for p in path], "verdict": v}
                        for (src, path), v in list(zip(cs, verdicts))[:: max(1, len(cs) // 10)][:10]],
            "evaluations": sum(len(p) for _, p in cs), "distinct_nontrivial": len(cs),
            "rule": f"every path of length {2 if tier == 'quick' else 3} over the 33 parametrised observations on every "
                    "source of length 0..3 over {0,1,2} (prefixes covered by the longer paths), plus random histories "
                    "of length 3..12 with random parameters on sources up to length 8; every path is distinct",
            "verdicts": tally, "mc": {"module": "MC_LazyList", "distinct": mc["distinct"], "generated": mc["generated"],
                                      "invariants": ["Refines", "CachePrefix", "AppendOnly"]},
            "trace_tlc": st, "exhaustive": False,
        },
        ["Abs layer = Vyxal list semantics (index wraps, negative index as Python, slices truncate)",
         "negative slice steps and __setitem__ are not observations (the latter belongs to C10)"],
        len(V.violations),
    )
    print(f"C13 {tier}: {len(cs)} histories, verdicts {tally}, MC {mc['distinct']} states, {time.time() - t0:.1f}s")
    return rc
