"""C14 Finite prefixes of infinite lists are computed lazily and terminate.

Spec:  MC_Pipe (demand-driven evaluation of Take(n) on every composition of
       <= 2/3 stage kinds terminates under weak fairness, never over-pulls,
       and the demand is within the composed linear bound).
Bind:  every catalogued transformation and compositions of up to 3 of them
       are applied to an instrumented infinite source; items are read one at a
       time under a watchdog; TLC checks every delivery against
       Allowed(pipeline, j+1) = 2 * Need + 8.
"""
from __future__ import annotations

import itertools
import time

from . import common, tlc

PID = "C14"

# name -> (stage kind, parameter, constructor taking (E, H, ctx, L, mk), requirement, scalar-out, distinct-out)
#   requirement: "any" | "scalar" (items are numbers) | "distinct" (items pairwise distinct, so that the
#   transformation makes progress: the specification's side conditions "injective source", "periodic predicate")
#   | "scalar-distinct"
#   scalar-out / distinct-out: "same" (as the input), True, False
def catalogue():
    def inc(E, c):
        return lambda x: E.increment(x, c)

    C = {
        "map": ("same", 0, lambda E, H, c, L, mk: E.vy_map(L, inc(E, c), c), "any", "same", "same"),
        "vectorise-fn": ("same", 0, lambda E, H, c, L, mk: E.vectorise(inc(E, c), L, ctx=c), "any", "same", "same"),
        "filter-every-3rd": ("filter", 3, lambda E, H, c, L, mk: E.vy_filter(L, lambda x: x % 3 == 0, c), "scalar-distinct", True, True),
        "zip": ("same", 0, lambda E, H, c, L, mk: E.vy_zip(L, mk(), c), "any", False, "same"),
        "zip-finite": ("same", 0, lambda E, H, c, L, mk: E.vy_zip(L, [10, 20, 30], c), "any", False, "same"),
        "add-finite-list": ("same", 0, lambda E, H, c, L, mk: E.add(L, [10, 20, 30], c), "scalar", True, False),
        "zip-self": ("same", 0, lambda E, H, c, L, mk: E.vy_zip(L, H.deep_copy(L), c), "any", False, "same"),
        "interleave": ("half", 0, lambda E, H, c, L, mk: E.interleave(L, mk(), c), "any", "same", False),
        "prefixes": ("same", 0, lambda E, H, c, L, mk: H.prefixes(L, c), "any", False, True),
        "cumulative-sums": ("ahead", 0, lambda E, H, c, L, mk: E.cumulative_sum(L, c), "scalar", True, False),
        "scan": ("ahead", 0, lambda E, H, c, L, mk: H.scanl(lambda a, b: a + b, L, c), "scalar", True, False),
        "deltas": ("ahead", 0, lambda E, H, c, L, mk: E.deltas(L, c), "scalar", True, False),
        "windows-3": ("window", 3, lambda E, H, c, L, mk: E.overlapping_groups(L, 3, c), "any", False, "same"),
        "chunks-3": ("chunk", 3, lambda E, H, c, L, mk: E.wrap(L, 3, c), "any", False, "same"),
        "flatten-chunks": ("same", 0, lambda E, H, c, L, mk: E.deep_flatten(E.wrap(L, 3, c), c), "scalar", True, "same"),
        "uniquify": ("same", 0, lambda E, H, c, L, mk: E.uniquify(L, c), "distinct", "same", True),
        "enumerate": ("same", 0, lambda E, H, c, L, mk: E.vy_enumerate(L, c), "any", False, True),
        "prepend": ("pre", 1, lambda E, H, c, L, mk: E.prepend(L, 9, c), "any", "same", False),
        "merge-after-list": ("pre", 2, lambda E, H, c, L, mk: E.merge([7, 8], L, c), "any", "same", False),
        "slice-from-5": ("drop", 5, lambda E, H, c, L, mk: E.slice_from(L, 5, c), "any", "same", "same"),
        "behead": ("ahead", 0, lambda E, H, c, L, mk: L[1:], "any", "same", "same"),
        "head-remove": ("ahead", 0, lambda E, H, c, L, mk: E.head_remove(L, c), "any", "same", "same"),
        "every-2nd": ("every", 2, lambda E, H, c, L, mk: E.index(L, [None, None, 2], c), "any", "same", "same"),
        "group-consecutive": ("ahead", 0, lambda E, H, c, L, mk: E.group_consecutive(L, c), "distinct", False, True),
        "add-scalar": ("same", 0, lambda E, H, c, L, mk: E.add(L, 1, c), "any", "same", "same"),
        "add-list": ("same", 0, lambda E, H, c, L, mk: E.add(L, mk(), c), "scalar", True, False),
        "subtract-scalar": ("same", 0, lambda E, H, c, L, mk: E.subtract(L, 2, c), "any", "same", "same"),
        "multiply-scalar": ("same", 0, lambda E, H, c, L, mk: E.multiply(L, 2, c), "any", "same", "same"),
        "increment": ("same", 0, lambda E, H, c, L, mk: E.increment(L, c), "any", "same", "same"),
        "decrement": ("same", 0, lambda E, H, c, L, mk: E.decrement(L, c), "any", "same", "same"),
        "negate": ("same", 0, lambda E, H, c, L, mk: E.negate(L, c), "any", "same", "same"),
        "halve": ("same", 0, lambda E, H, c, L, mk: E.halve(L, c), "scalar", True, "same"),
        "square": ("same", 0, lambda E, H, c, L, mk: E.square(L, c), "scalar", True, False),
        "absolute": ("same", 0, lambda E, H, c, L, mk: E.vy_abs(L, c), "any", "same", False),
        "sign": ("same", 0, lambda E, H, c, L, mk: E.sign_of(L, c), "any", "same", False),
        "less-than": ("same", 0, lambda E, H, c, L, mk: E.less_than(L, 5, c), "any", "same", False),
        "equals": ("same", 0, lambda E, H, c, L, mk: E.equals(L, 3, c), "any", "same", False),
        "wrap-items": ("same", 0, lambda E, H, c, L, mk: E.vy_map(L, lambda x: [x], c), "any", False, "same"),
        # the scalar on the LEFT of a vectorising dyad
        "scalar-add-left": ("same", 0, lambda E, H, c, L, mk: E.add(10, L, c), "any", "same", "same"),
        "scalar-subtract-left": ("same", 0, lambda E, H, c, L, mk: E.subtract(100, L, c), "any", "same", "same"),
        "scalar-multiply-left": ("same", 0, lambda E, H, c, L, mk: E.multiply(2, L, c), "any", "same", "same"),
        "scalar-less-left": ("same", 0, lambda E, H, c, L, mk: E.less_than(7, L, c), "any", "same", False),
        # items that are themselves INFINITE lists, and flattening whatever arrives
        "map-to-infinite-lists": ("same", 0, lambda E, H, c, L, mk: E.vy_map(L, lambda x: mk(), c), "any", False, False),
        "flatten": ("same", 0, lambda E, H, c, L, mk: E.deep_flatten(L, c), "any", True, False),
        "constant-zero": ("same", 0, lambda E, H, c, L, mk: E.multiply(L, 0, c), "scalar", True, False),
        # boundary parameters: windows / chunks of ONE item, a slice from offset 0 and from a NEGATIVE offset (of an
        # endless list that is nothing: taking items from it must still terminate, with fewer items), every 1st item
        "windows-1": ("window", 1, lambda E, H, c, L, mk: E.overlapping_groups(L, 1, c), "any", False, "same"),
        # a WIDE window: a stage that buffers width*width items before its first window stays under the linear
        # bound for widths <= 3 (seed C14-13); the bound for width 8 is c + 7
        "windows-8": ("window", 8, lambda E, H, c, L, mk: E.overlapping_groups(L, 8, c), "any", False, "same"),
        "chunks-1": ("chunk", 1, lambda E, H, c, L, mk: E.wrap(L, 1, c), "any", False, "same"),
        "slice-from-0": ("drop", 0, lambda E, H, c, L, mk: E.slice_from(L, 0, c), "any", "same", "same"),
        "slice-from-minus-2": ("same", 0, lambda E, H, c, L, mk: E.slice_from(L, -2, c), "any", "same", "same"),
        "every-1st": ("every", 1, lambda E, H, c, L, mk: E.index(L, [None, None, 1], c), "any", "same", "same"),
        # the OTHER documented operand order of the dyads that accept both (function first, the endless list second)
        "filter-fn-first": ("filter", 3, lambda E, H, c, L, mk: E.vy_filter(lambda x: x % 3 == 0, L, c), "scalar-distinct", True, True),
        "map-fn-first": ("same", 0, lambda E, H, c, L, mk: E.vy_map(inc(E, c), L, c), "any", "same", "same"),
        "zip-endless-right": ("same", 0, lambda E, H, c, L, mk: E.vy_zip(mk(), L, c), "any", False, "same"),
        "interleave-right": ("half", 0, lambda E, H, c, L, mk: E.interleave(mk(), L, c), "any", "same", False),
        "add-list-left": ("same", 0, lambda E, H, c, L, mk: E.add(mk(), L, c), "scalar", True, False),
        # streams that MIX texts and numbers (then chunked / windowed / zipped by a later stage)
        "prepend-text": ("pre", 1, lambda E, H, c, L, mk: E.prepend(L, "a", c), "any", False, False),
        "interleave-texts": ("half", 0, lambda E, H, c, L, mk: E.interleave(L, E.vy_map(mk(), lambda x: "t", c), c), "any", False, False),
        # a TEXT scalar on the right of a vectorising dyad (formatting each item)
        "modulo-text-right": ("same", 0, lambda E, H, c, L, mk: E.modulo(L, "<%>", c), "any", False, "same"),
        "add-text-right": ("same", 0, lambda E, H, c, L, mk: E.add(L, "!", c), "any", False, "same"),
    }
    return C


SHORT_OK = {"slice-from-minus-2"}


def admissible(names):
    """value-flow typing of a pipeline: every stage's side condition is met by what reaches it"""
    C = catalogue()
    scalar, distinct = True, True          # the source: 0, 1, 2, ...
    for nm in names:
        req, so, do = C[nm][3], C[nm][4], C[nm][5]
        if "scalar" in req and not scalar:
            return False
        if "distinct" in req and not distinct:
            return False
        # halving makes rationals: the periodic predicate of the filter stage is written for integers
        scalar = scalar if so == "same" else so
        distinct = distinct if do == "same" else do
        if nm in ("halve",):
            distinct = False if False else distinct
    return True


def observe(case):
    names, n = case
    import vyxal.elements as E
    import vyxal.helpers as H
    from vyxal.context import Context
    from vyxal.LazyList import LazyList

    C = catalogue()
    ctx = Context()
    count = [0]

    def source(counted):
        i = 0
        while True:
            if counted:
                count[0] += 1
            yield i
            i += 1

    def mk():
        return LazyList(source(False), isinf=True)

    ev = []
    short = False
    pipe = [{"kind": C[nm][0], "p": C[nm][1]} for nm in names]
    try:
        L = LazyList(source(True), isinf=True)
        R = common.with_alarm(lambda _: _build(C, names, E, H, ctx, L, mk), None, 5)
    except common.CaseTimeout:
        return {"pipe": pipe, "names": names, "ev": [{"e": "hang", "j": 0, "pulled": count[0], "what": "construction"}]}
    except Exception as e:  # noqa: BLE001
        return {"pipe": pipe, "names": names, "ev": [{"e": "raise", "j": 0, "pulled": count[0], "what": "construction-" + type(e).__name__}]}
    # "taking the first n items": the slice R[:k], materialised, for k = 0, 1, 5 (before any indexing)
    for k in (0, 1, 5):
        try:
            got = common.with_alarm(lambda _: list(E.index(R, [0, k], ctx)), None, 5)
            if len(got) < k and any(nm in SHORT_OK for nm in names):
                # the result is legitimately shorter (nothing before the start of an endless list): taking k
                # items terminated, which is what is claimed; there is nothing to index afterwards
                ev.append({"e": "out", "j": max(len(got) - 1, 0), "pulled": count[0], "what": ""})
                short = True
                continue
            if len(got) != k:
                ev.append({"e": "raise", "j": k, "pulled": count[0], "what": f"first-{k}-items-gave-{len(got)}"})
                return {"pipe": pipe, "names": names, "ev": ev}
            ev.append({"e": "out", "j": max(k - 1, 0), "pulled": count[0], "what": ""})
        except common.CaseTimeout:
            ev.append({"e": "hang", "j": k, "pulled": count[0], "what": "take"})
            return {"pipe": pipe, "names": names, "ev": ev}
        except Exception as e:  # noqa: BLE001
            ev.append({"e": "raise", "j": k, "pulled": count[0], "what": "take-" + type(e).__name__})
            return {"pipe": pipe, "names": names, "ev": ev}
    # ... and by the first-n element in both documented operand orders (list then count, count then list)
    if not short:
        for order in (0, 1):
            try:
                got = common.with_alarm(lambda _: list(E.zero_slice(R, 5, ctx) if order == 0 else E.zero_slice(5, R, ctx)), None, 5)
                if len(got) != 5:
                    ev.append({"e": "raise", "j": 5, "pulled": count[0], "what": f"first-5-by-element-gave-{len(got)}"})
                    return {"pipe": pipe, "names": names, "ev": ev}
                ev.append({"e": "out", "j": 4, "pulled": count[0], "what": ""})
            except common.CaseTimeout:
                ev.append({"e": "hang", "j": 5, "pulled": count[0], "what": "take-by-element"})
                return {"pipe": pipe, "names": names, "ev": ev}
            except Exception as e:  # noqa: BLE001
                ev.append({"e": "raise", "j": 5, "pulled": count[0], "what": "take-by-element-" + type(e).__name__})
                return {"pipe": pipe, "names": names, "ev": ev}
    for j in range(0 if short else n):
        try:
            common.with_alarm(lambda _: R[j], None, 5)
            ev.append({"e": "out", "j": j, "pulled": count[0], "what": ""})
        except common.CaseTimeout:
            ev.append({"e": "hang", "j": j, "pulled": count[0], "what": ""})
            break
        except Exception as e:  # noqa: BLE001
            ev.append({"e": "raise", "j": j, "pulled": count[0], "what": type(e).__name__})
            break
    return {"pipe": pipe, "names": names, "ev": ev}


def _build(C, names, E, H, ctx, L, mk):
    R = L
    for nm in names:
        R = C[nm][2](E, H, ctx, R, mk)
    return R


def main(tier):
    t0 = time.time()
    rng = common.rng(14)
    V = common.Verdicts(PID)
    common.import_repo()
    names = list(catalogue())
    cs = [([nm], 41) for nm in names]
    pairs = list(itertools.product(names, repeat=2))
    rng.shuffle(pairs)
    pairs = [p for p in pairs if admissible(p)]
    for i, p in enumerate(pairs):        # every admissible ordered pair; the quick tier reads fewer items of most
        cs.append((list(p), 41 if tier == "thorough" else rng.choice([6, 21, 41]) if i < 200 else 6))
    ntri = 100 if tier == "quick" else 6000
    while ntri > 0:
        t = [rng.choice(names) for _ in range(3)]
        # (halving makes rationals; the filter stages' periodic predicate -- every 3rd item -- is stated for integers)
        if admissible(t) and not ("halve" in t and any(nm.startswith("filter") for nm in t)):
            cs.append((t, rng.choice([6, 21, 41])))
            ntri -= 1
    with common.Scratch(PID) as s:
        mc = tlc.model_check(s, "MC_Pipe", cfg="MC_Pipe_quick" if tier == "quick" else "MC_Pipe", workers=16, timeout=3000)
        if not mc["ok"]:
            V.add("spec:MC_Pipe:" + str(mc["violated"]), {"trace": tlc.counterexample(mc["out"])})
        obs = common.pool_map(observe, cs, initfn=common.import_repo, hard_timeout=120,
                              on_timeout=lambda c: {"pipe": [], "names": c[0], "ev": [{"e": "hang", "j": 0, "pulled": 0, "what": "hard"}]})
        common.retry_hangs(cs, obs, observe)      # a watchdog firing under load is re-observed alone, with longer alarms
        for o, c in zip(obs, cs):
            if not o["pipe"]:
                C = catalogue()
                o["pipe"] = [{"kind": C[nm][0], "p": C[nm][1]} for nm in c[0]]
        verdicts, st = tlc.validate(s, "Trace_Pipe", obs, cfg="Trace_Pipe.cfg", chunk=1500)
    tally = {}
    for c, v, o in zip(cs, verdicts, obs):
        key = v.split("@")[0]
        tally[key] = tally.get(key, 0) + 1
        if v.startswith("violation"):
            V.add(f"{'>'.join(c[0])}:{key.split(':', 1)[1]}",
                  {"pipeline": c[0], "verdict": v, "last_events": o["ev"][-3:]})
    rc = V.finish()
    common.write_evidence(
        PID, tier, t0,
        {
            "states": mc["distinct"], "transitions": mc["generated"], "traces_validated_against_impl": len(cs),
            "samples": [{"pipeline": c[0], "n": c[1], "verdict": v, "pulled_at_end": o["ev"][-1]["pulled"] if o["ev"] else None}
                        for c, v, o in list(zip(cs, verdicts, obs))[:: max(1, len(cs) // 12)][:12]],
            "evaluations": sum(len(o["ev"]) for o in obs), "distinct_nontrivial": len({tuple(c[0]) for c in cs}),
            "rule": f"{len(names)} catalogued transformations alone (41 items each, one at a time), "
                    f"{'200 sampled' if tier == 'quick' else 'all'} admissible ordered pairs, random admissible triples "
                    "(value-flow typing: scalar / distinct side conditions of each stage); each delivery is one "
                    "event checked against Allowed = 2*Need+8; distinct pipelines",
            "verdicts": tally, "mc": {"module": "MC_Pipe", "distinct": mc["distinct"],
                                      "properties": ["Terminates (WF)", "NeverOverPulls", "DemandIsComposed", "LinearBound"]},
            "trace_tlc": {k: st[k] for k in st if k != "extra"}, "exhaustive": False,
        },
        ["the source is a harness-owned generator that counts pulls; auxiliary second sources are not counted",
         "per-stage demand relations are in spec/VyLazyPipe.tla; the bound carries slack (factor 2, +8) so that a "
         "legitimate change of look-ahead does not alarm", "watchdog: 5 s per item"],
        len(V.violations),
    )
    print(f"C14 {tier}: {len(cs)} pipelines, verdicts {tally}, MC {mc['distinct']} states, {time.time() - t0:.1f}s")
    return rc
