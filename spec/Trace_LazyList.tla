---- MODULE Trace_LazyList ----
(***************************************************************************)
(* Validation of observation histories of a real LazyList (C13).          *)
(* A trace is [src, ops]; every op carries the returned value `res`        *)
(* (tagged) and the cache `gen` after the call.  One TLC step consumes one *)
(* logged observation:                                                     *)
(*   Prop_C13  : res = AbsAnswer(src, op)           (observed fields only) *)
(*   conformance: the logged cache equals the cache of the Impl layer      *)
(*                stepped in lock-step (reported as drift, not violation)  *)
(***************************************************************************)
EXTENDS VyLazyList, Json, IOUtils, TLC, TLCExt

BatchFile == JsonDeserialize(IOEnv.TRACE_FILE)
ASSUME TLCSet(7, BatchFile)
Batch == TLCGet(7)

VARIABLES tid, l, st, ait, verdict
tvars == <<tid, l, st, ait, verdict>>
T == Batch[tid]

Init == /\ tid \in 1..Len(Batch)
        /\ l = 1
        /\ st = InitImpl
        /\ ait = -1
        /\ verdict = "ok"

Prop_C13(src, o) == o.res = AbsAnswer(src, ait, o)

Step ==
    /\ l <= Len(T.ops)
    /\ LET o == T.ops[l]
           r == ImplDo(T.src, st, o)
       IN /\ IF ~Prop_C13(T.src, o)
             THEN verdict' = "violation:" \o o.op \o "@" \o ToString(l)
             ELSE IF verdict = "ok" /\ r[2].gen # o.gen
                  THEN verdict' = "drift:cache:" \o o.op
                  ELSE verdict' = verdict
          /\ st' = IF r[2].gen = o.gen THEN r[2] ELSE [r[2] EXCEPT !.gen = o.gen, !.raw = Len(o.gen)]
          /\ ait' = AbsItAfter(T.src, ait, o)
    /\ l' = IF ~Prop_C13(T.src, T.ops[l]) THEN Len(T.ops) + 1 ELSE l + 1   \* stop at the first violation
    /\ tid' = tid
    /\ (l' <= Len(T.ops) \/ PrintT(<<"V", tid, verdict'>>))

Empty == /\ l = 1 /\ Len(T.ops) = 0 /\ l' = 2 /\ UNCHANGED <<tid, st, ait, verdict>>
         /\ PrintT(<<"V", tid, "ok">>)

Next == Step \/ Empty
====
