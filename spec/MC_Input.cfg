SPECIFICATION Spec
CONSTANTS
  MaxInputs = 3
  MaxDepth = 2
  MaxHist = 7
INVARIANT StreamIsCyclic
INVARIANT CursorIsCount
INVARIANT InnerReadsAreArguments
PROPERTY ScopesOnlyGrowByOne
PROPERTY DeliveredAppendOnly
CHECK_DEADLOCK FALSE
