SPECIFICATION Spec
CONSTANTS
  MaxToks = 4
INVARIANT TruncationInvariant
CHECK_DEADLOCK FALSE
