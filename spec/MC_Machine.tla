---- MODULE MC_Machine ----
(***************************************************************************)
(* Design-level exploration of VyMachine: the environment chooses any      *)
(* program of <= MaxToks tokens over a structural alphabet and one of the  *)
(* input lists; the machine then runs step by step (Step is a function).   *)
(* Checked on every reachable state of every such program:                 *)
(*   C12  BalancedAtEnd, TopLevelBalanced  (bookkeeping depths)            *)
(*   C09  FrameRule        (an element step leaves the entries below its   *)
(*                          arity untouched; whole-stack ops exempt)       *)
(*   C11  InputCursor      (the top-level cursor equals the number of      *)
(*                          top-level deliveries; see also MC_Input)       *)
(*   StatusOK, progress of the step counter                                *)
(***************************************************************************)
EXTENDS VyMachine, TLC

CONSTANTS MaxToks, StepBound, AlphaSel

G(c) == Tok("general", <<c>>)
AlphabetA == {Tok("number", <<49>>), Tok("number", <<50>>), G(43), G(58), G(95), G(44), G(110), G(63),
              G(c_lbrack), G(c_pipe), G(c_rbrack), G(c_lparen), G(c_rparen), G(c_lbrace), G(c_rbrace),
              G(c_lambda), G(c_semi), G(c_lmap), G(8224), G(c_X), G(c_x), G(87)}
(* second alphabet: text, the second batch of elements (two-result extracts, membership, prepend, deltas,
   running sums, maximum, not-equal), modifiers, list literals *)
AlphabetB == {Tok("number", <<51>>), Tok("string", <<97, 98>>), Tok("character", <<122>>),
              G(7715), G(7787), G(112), G(99), G(8800), G(71), G(175), G(166), G(43), G(74), G(76), G(44), G(87),
              G(c_lparen), G(c_rparen), G(c_llist), G(c_pipe), G(c_rlist), G(m_v), G(m_tilde), G(c_lambda), G(c_semi), G(8224)}
(* third alphabet: lazily produced lists -- a map lambda whose body prints, the ways of printing, copying, moving and
   wrapping the reference (5 / 6 tokens are needed for a copy to be printed after its original) *)
AlphabetZ == {Tok("number", <<50>>), G(c_lmap), G(44), G(8230), G(c_semi), G(58), G(36), G(119)}
Alphabet == IF AlphaSel = "B" THEN AlphabetB ELSE IF AlphaSel = "Z" THEN AlphabetZ ELSE AlphabetA
InputSets == {<<>>, <<VI(3)>>, <<VI(2), VL(<<VI(1), VI(2)>>)>>}

VARIABLES prog, phase, m
vars == <<prog, phase, m>>

Idle == [status |-> "idle"]

Init == prog = <<>> /\ phase = "build" /\ m = Idle

(* the environment writes the program token by token ... *)
Emit == /\ phase = "build" /\ Len(prog) < MaxToks
        /\ \E t \in Alphabet : prog' = Append(prog, t)
        /\ UNCHANGED <<phase, m>>
(* ... and starts it on one of the input lists *)
Start == /\ phase = "build" /\ WellFormedToks(prog)
         /\ \E inp \in InputSets : m' = InitMachine(Parse(prog, "none"), inp, {})
         /\ phase' = "run" /\ UNCHANGED prog
Run == /\ phase = "run" /\ m.status = "run"
       /\ m.steps < StepBound              \* non-terminating programs are cut here
       /\ m' = Step(m)
       /\ UNCHANGED <<prog, phase>>
Next == Emit \/ Start \/ Run
Spec == Init /\ [][Next]_vars

StatusOK == m.status \in {"idle", "run", "done", "undefined", "raise"}

InitDepths == <<1, 1, 2, 0>>
LoopDepth(s) == Cardinality({k \in 1..Len(s.ctl) : s.ctl[k].k \in LoopItems})

BalancedAtEnd == m.status = "done" => (Depths(m) = InitDepths /\ Last(m.cvals) = VI(0))
TopLevelBalanced == (AtProbe(m) /\ LoopDepth(m) = 0) => (Depths(m) = InitDepths /\ Last(m.cvals) = VI(0))
ActivationsMatch == m.status = "run" => Len(m.acts) >= 1
(* every scope pushed on inps belongs to a live lambda / function activation *)
ScopesMatch == m.status = "run" =>
    Len(m.inps) = 1 + Cardinality({k \in 1..Len(m.acts) : m.acts[k].kind \in {"lambda", "fn"}})

(* C09: a plain element of table arity k leaves everything below the top k alone *)
WholeStack == {"wrapstack", "revstack", "stacklen", "call"}
IsElemStep(s) == /\ s.status = "run" /\ s.ctl # <<>>
                 /\ Head(s.ctl).k = "node" /\ Head(s.ctl).n.t = "gen" /\ Head(s.ctl).n.tok.k = "general"
                 /\ ElemName(Head(s.ctl).n.tok.v) \notin WholeStack \cup {"?"}
FrameRule ==
    [][IsElemStep(m) /\ m'.status = "run" /\ Len(m'.acts) = Len(m.acts) =>
         LET k == ElemArity(ElemName(Head(m.ctl).n.tok.v))
             keep == IF Len(Stk(m)) > k THEN Len(Stk(m)) - k ELSE 0
         IN SubSeq(Stk(m'), 1, keep) = SubSeq(Stk(m), 1, keep)]_vars

StepsGrow == [][(phase = "run" /\ m'.status = "run") => m'.steps = m.steps + 1]_vars

(* lazily produced lists (DeferredMap): every reference anywhere on a stack names a cell; a copy names an
   EARLIER cell; a cell is "busy" exactly while an item producing it is on the control stack; a finished run
   leaves no cell busy; items are produced once -- a cell that is done never changes again *)
AllRefs(s) == UNION {{ZRefsSeq(s.acts[k].stk)[j] : j \in 1..Len(ZRefsSeq(s.acts[k].stk))} : k \in 1..Len(s.acts)}
Producing(s) == {s.ctl[k].zid : k \in {j \in 1..Len(s.ctl) : s.ctl[j].k \in {"hof", "hofk", "zscan"} /\ s.ctl[j].lz}}
                \cup {s.ctl[k].src : k \in {j \in 1..Len(s.ctl) : s.ctl[j].k = "zscan"}}
HeapOK == m.status \in {"run", "done"} =>
    /\ AllRefs(m) \subseteq 1..Len(m.heap)
    /\ \A k \in 1..Len(m.heap) : m.heap[k].op = "copy" => m.heap[k].src \in 1..(k - 1)
    /\ \A k \in 1..Len(m.heap) : m.heap[k].state = "busy" => k \in Producing(m)
    /\ m.status = "done" => \A k \in 1..Len(m.heap) : m.heap[k].state # "busy"
ProducedOnce ==
    [][m.status = "run" /\ m'.status \in {"run", "done"} =>
         /\ Len(m'.heap) >= Len(m.heap)
         /\ \A k \in 1..Len(m.heap) : m.heap[k].state = "done" => m'.heap[k] = m.heap[k]]_vars
====
