---- MODULE Trace_Machine ----
(***************************************************************************)
(* Lock-step validation of implementation runs against VyMachine.          *)
(* A trace: text, flags, inputs, ev = <<Probe ..., Final>>.                *)
(* Probe  = a statement of the module frame is about to run: logged sig    *)
(*          (node kind/token), stack projection, the four depths, n.       *)
(* Final  = after execute_vyxal: forced stack, captured stdout, depths.    *)
(* One TLC step consumes one event and runs the machine to its next probe  *)
(* point (RunToProbe).  Verdict lines:                                     *)
(*   "V" : C01   ok | skip:<why> | drift:<what> | violation:<clause>       *)
(*   "W" : C12   ok | skip | violation:<clause>                            *)
(* Prop_C01/Prop_C12 mention observed fields (and the position the model   *)
(* has reached, to know whether a probe is outside all loops).             *)
(***************************************************************************)
EXTENDS VyMachine, Json, IOUtils, TLCExt

BatchFile == JsonDeserialize(IOEnv.TRACE_FILE)
ASSUME TLCSet(7, BatchFile)
Batch == TLCGet(7)

VARIABLES tid, l, m, v01, v12
tvars == <<tid, l, m, v01, v12>>
T == Batch[tid]

ToProbe(s) == IF AtProbe(s) \/ s.status # "run" THEN s ELSE RunToProbe(s)

---------------------------------------------------------------------------
(* matching an observed value (JSON projection) against a model value      *)
RECURSIVE Match(_, _)
Match(o, v) ==
    IF "w" \in DOMAIN o THEN TRUE                             \* too big to carry: not compared
    ELSE IF "i" \in DOMAIN o THEN IsI(v) /\ v.i = o.i
    ELSE IF "s" \in DOMAIN o THEN IsS(v) /\ v.s = o.s
    ELSE IF IsZ(v) THEN "z" \in DOMAIN o \/ "l" \in DOMAIN o   \* a cell nobody has forced: the harness forces it AFTER the
                                                              \* run to project it -- what its bodies compute then is not the run's
    ELSE IF "z" \in DOMAIN o THEN IsL(v)                       \* an unforced lazy list: shape only
    ELSE IF "l" \in DOMAIN o THEN IsL(v) /\ Len(v.l) = Len(o.l) /\ \A k \in 1..Len(o.l) : Match(o.l[k], v.l[k])
    ELSE IF "f" \in DOMAIN o THEN IsF(v)
    ELSE FALSE
MatchSeq(os, vs) == Len(os) = Len(vs) /\ \A k \in 1..Len(os) : Match(os[k], vs[k])

(* the model's stack with every cell that HAS been forced written as the list of its items *)
RStk(s) == [k \in 1..Len(Stk(s)) |-> Resolve(s, Stk(s)[k])]
LiveZ(s) == \E k \in 1..Len(Stk(s)) : ZIn(Resolve(s, Stk(s)[k]))

SigOf(n) == IF n.t = "gen" THEN [t |-> "gen", k |-> n.tok.k, v |-> n.tok.v] ELSE [t |-> n.t, k |-> "", v |-> <<>>]

LoopDepth(s) == Cardinality({k \in 1..Len(s.ctl) : s.ctl[k].k \in LoopItems})
InitDepths == <<1, 1, 2, 0>>

(* inputs arrive projected; only integers and lists of them are in the domain *)
RECURSIVE InVal(_)
InVal(o) == IF "i" \in DOMAIN o THEN VI(o.i)
            ELSE IF "l" \in DOMAIN o THEN VL([k \in 1..Len(o.l) |-> InVal(o.l[k])])
            ELSE UNDEF("input")
InputsOf(t) == [k \in 1..Len(t.inputs) |-> InVal(t.inputs[k])]
FlagSet(t) == {t.flags[k] : k \in 1..Len(t.flags)}

Start(t) ==
    LET tree == ParseText(t.text)        \* (TLC evaluates LET definitions lazily: not parsed unless needed)
    IN IF t.ev[Len(t.ev)].raised \in {"budget", "timeout", "RecursionError"}
       THEN [status |-> "undefined", why |-> "impl-" \o t.ev[Len(t.ev)].raised]     \* not evaluated: do not run the model
       ELSE IF Len(t.text) > 400 THEN [status |-> "undefined", why |-> "program-too-long"]
       ELSE IF AnyError(tree) THEN [status |-> "undefined", why |-> "parse-error"]
       ELSE IF \E k \in 1..Len(t.inputs) : HasU(InVal(t.inputs[k])) THEN [status |-> "undefined", why |-> "input"]
       ELSE ToProbe(InitMachine(tree, InputsOf(t), FlagSet(t)))

Init == /\ tid \in 1..Len(Batch)
        /\ l = 1
        /\ m = Start(T)
        /\ v01 = "ok"
        /\ v12 = "ok"

NE == Len(T.ev)
Fin == T.ev[NE]

(* C01 on the final observation *)
FinalVerdict(s) ==
    IF s.status = "undefined" THEN "skip:undefined:" \o s.why
    ELSE IF Fin.raised \in {"budget", "timeout", "RecursionError"} THEN "skip:impl-" \o Fin.raised
    ELSE IF s.status = "raise" THEN (IF Fin.raised = (IF T.online THEN "SystemExit" ELSE s.why) THEN "ok"
                                     ELSE "violation:expected-" \o s.why)
    ELSE IF Fin.raised # "" THEN "violation:raised-" \o Fin.raised
    ELSE IF LiveZ(s) /\ Len(Fin.stack) = 1 /\ "x" \in DOMAIN Fin.stack[1]
         THEN "skip:undefined:forcing-after-the-run-raised"       \* (the harness, not the program, ran those bodies)
    ELSE IF ~MatchSeq(Fin.stack, RStk(s)) THEN "violation:final-stack"
    ELSE IF Fin.out # s.out THEN "violation:printed-text"
    ELSE "ok"

(* C12 on the final observation: the bookkeeping is back to its initial depth *)
(* (a run that COMPLETED must be balanced whatever the machine thinks of it -- also where the machine left its
   domain or expected an exception: an error swallowed on the way leaves the bookkeeping of the interrupted call) *)
FinalBalance(s) ==
    IF Fin.raised # "" THEN "skip"
    ELSE IF Fin.d # InitDepths THEN "violation:final-depths"
    ELSE IF ~("i" \in DOMAIN Fin.ctx /\ Fin.ctx.i = 0) THEN "violation:final-context"
    ELSE "ok"

(* C19 (online mode) on the final observation -- observed fields only, plus the machine's
   output when the run stayed inside the modelled domain (fv is the C01 verdict) *)
OnlineVerdict(fv) ==
    IF ~T.online THEN "skip"
    ELSE IF Fin.raised \in {"budget", "timeout", "RecursionError"} THEN "skip"
    ELSE IF Fin.host # 0 THEN "violation:host-stdout-written"
    \* a run that fails BY CONSTRUCTION (unbounded recursion, an undefined name, an empty global array -- met
    \* eagerly or while a lazy value is printed) must end in the error record
    ELSE IF "mustfail" \in DOMAIN T /\ T.mustfail /\ Fin.raised # "SystemExit" THEN "violation:error-not-reported"
    ELSE IF Fin.canary # 0 THEN "violation:user-text-executed-as-python"
    ELSE IF Fin.raised \notin {"", "SystemExit"} THEN "violation:exception-propagated-" \o Fin.raised
    ELSE IF Fin.raised = "SystemExit" /\ Fin.rec2 = 0 THEN "violation:error-not-recorded"
    ELSE IF fv = "violation:printed-text" THEN "violation:output-record-differs"
    ELSE "ok"

(* The machine has ONE kind of list: a list is what it denotes, however it was produced.  A run may therefore carry
   a TWIN: the final observation of the same program with a list literal written as an equivalent lazily produced
   list (a range).  Whatever the program does -- also where the machine itself is silent (impure bodies of lazily
   evaluated lambdas) -- both runs must end with the same stack and the same printed text. *)
TwinBad == /\ "twin" \in DOMAIN T
           /\ Fin.raised \notin {"budget", "timeout", "RecursionError"}
           /\ T.twin.raised \notin {"budget", "timeout", "RecursionError"}
           /\ (T.twin.stack # Fin.stack \/ T.twin.out # Fin.out \/ T.twin.raised # Fin.raised)
(* the program's inputs are values like any other: no run changes them (logged: whether the input list the
   interpreter holds at the end still equals the one it was given) *)
InputsChanged == "inchg" \in DOMAIN Fin /\ Fin.inchg
IsViol(a) == Len(a) >= 9 /\ SubSeq(a, 1, 9) = "violation"
WithTwin(a) == IF IsViol(a) THEN a
               ELSE IF InputsChanged THEN "violation:program-inputs-changed"
               ELSE IF TwinBad THEN "violation:eager-and-lazy-source-differ" ELSE a

Emit(a0, b) == LET a == WithTwin(a0)
               IN PrintT(<<"V", tid, a>>) /\ PrintT(<<"W", tid, b>>) /\ PrintT(<<"X", tid, OnlineVerdict(a)>>)

ProbeStep ==
    /\ l < NE
    /\ LET e == T.ev[l]
           okpos == AtProbe(m)
           sigok == okpos /\ e.sig = SigOf(Head(m.ctl).n)
           stkok == sigok /\ MatchSeq(e.stack, RStk(m))
           depok == stkok /\ e.d = Depths(m) /\ Match(e.ctx, Last(m.cvals))
           top == okpos /\ LoopDepth(m) = 0
           bal == ~top \/ (e.d = InitDepths /\ "i" \in DOMAIN e.ctx /\ e.ctx.i = 0)
       IN IF m.status = "undefined"
          THEN /\ Emit("skip:undefined:" \o m.why, IF v12 = "ok" THEN FinalBalance(m) ELSE v12)
               /\ l' = NE + 1 /\ UNCHANGED <<m, v01, v12>>
          ELSE IF depok
          THEN /\ m' = RunToProbe(m)
               /\ l' = l + 1
               /\ v12' = IF v12 = "ok" /\ ~bal THEN "violation:depths-at-top-level-statement" ELSE v12
               /\ v01' = v01
          ELSE \* the observed intermediate state is not the model's: finish the model alone
               LET e2 == RunToEnd(m)
                   what == IF ~okpos THEN "extra-probe" ELSE IF ~sigok THEN "statement" ELSE IF ~stkok THEN "stack" ELSE "depths"
                   fv == FinalVerdict(e2)
               IN /\ Emit(IF fv = "ok" THEN "drift:probe-" \o what ELSE fv,
                          IF v12 # "ok" THEN v12 ELSE IF top /\ ~bal THEN "violation:depths-at-top-level-statement" ELSE FinalBalance(e2))
                  /\ l' = NE + 1 /\ UNCHANGED <<m, v01, v12>>
    /\ tid' = tid

FinalStep ==
    /\ l = NE
    /\ LET fv == IF AtProbe(m) THEN (IF Fin.raised \in {"budget", "timeout"} THEN "skip:impl-" \o Fin.raised
                                     ELSE LET e2 == RunToEnd(m) IN
                                          IF FinalVerdict(e2) = "ok" THEN "drift:missing-probe" ELSE FinalVerdict(e2))
                 ELSE FinalVerdict(m)
           fb == IF v12 # "ok" THEN v12 ELSE FinalBalance(IF AtProbe(m) THEN RunToEnd(m) ELSE m)
       IN Emit(fv, fb)
    /\ l' = NE + 1
    /\ UNCHANGED <<tid, m, v01, v12>>

Next == ProbeStep \/ FinalStep
====
