---- MODULE VyLazyList ----
(***************************************************************************)
(* vyxal/LazyList.py over a FINITE source, in two layers.                  *)
(*                                                                         *)
(*  Abs  : the list the lazy list denotes (src) and, for every             *)
(*         observation, the answer a plain (Vyxal) list gives.             *)
(*  Impl : the memoising cursor -- `gen` is the cache `generated`, `raw`   *)
(*         the number of items taken from the raw iterator -- with every   *)
(*         method written as in the code (pull by pull).                   *)
(*                                                                         *)
(* An observation is a record [op, a, b, c].  Results are integers,        *)
(* sequences, or the string "IndexError".  Booleans are 0/1.               *)
(* The refinement claim (checked by MC_LazyList, C13): every Impl answer   *)
(* equals the Abs answer, and gen stays a prefix of src (append-only).     *)
(***************************************************************************)
EXTENDS Integers, Sequences, FiniteSets

Min(a, b) == IF a < b THEN a ELSE b
Max(a, b) == IF a > b THEN a ELSE b
B(p) == IF p THEN 1 ELSE 0
Rev(s) == [i \in 1..Len(s) |-> s[Len(s) - i + 1]]
CountIn(s, x) == Cardinality({i \in 1..Len(s) : s[i] = x})
FirstPos(s, x) == IF \E i \in 1..Len(s) : s[i] = x
                  THEN CHOOSE i \in 1..Len(s) : s[i] = x /\ \A j \in 1..(i - 1) : s[j] # x
                  ELSE 0

(* indices a, a+s, a+2s, ... strictly below stop *)
RECURSIVE Range(_, _, _)
Range(a, stop, s) == IF a >= stop THEN <<>> ELSE <<a>> \o Range(a + s, stop, s)

At(l, i) == l[i + 1]      \* 0-based access

---------------------------------------------------------------------------
(* Abs: answers of the plain list                                          *)

(* results are tagged records so that TLC can compare answers of different types *)
RI(n) == [i |-> n]
RL(l) == [l |-> l]
RE(e) == [e |-> e]
Pick(l, idxs) == [k \in 1..Len(idxs) |-> At(l, idxs[k])]

(* what an Eq observation compares the list with: 1 the same items, 0 one item more, 2 a proper prefix
   (all but the last item), 3 the empty list, 4 the same length with a different last item;
   5 / 6: as 1 / 2 but the partner is itself a lazy list *)
EqPartner(src, a) ==
    LET n == Len(src)
    IN CASE a \in {1, 5, 7, 8} -> src             \* (7, 8: an equal lazy partner that was observed before)
         [] a = 0 -> Append(src, 9)
         [] a \in {2, 6} -> IF n = 0 THEN <<>> ELSE SubSeq(src, 1, n - 1)
         [] a = 3 -> <<>>
         [] OTHER -> IF n = 0 THEN <<9>> ELSE [src EXCEPT ![n] = 9]


(* the abstract state is the cursor of the one suspended iterator (-1: none) *)
AbsItStart(ait) == IF ait = -1 THEN 0 ELSE ait
AbsItAfter(src, ait, o) ==
    CASE o.op = "IterTake" -> Min(AbsItStart(ait) + o.a, Len(src))
      [] o.op = "IterDrain" -> -1
      [] OTHER -> ait

AbsAnswer(src, ait, o) ==
    LET n == Len(src)
    IN CASE o.op = "IterTake" -> RL(SubSeq(src, AbsItStart(ait) + 1, Min(AbsItStart(ait) + o.a, n)))
         [] o.op = "IterDrain" -> RL(SubSeq(src, AbsItStart(ait) + 1, n))
         [] o.op = "CopyIndex" -> RI(IF n = 0 THEN 0 ELSE At(src, o.a % n))
         [] o.op = "CopyList" -> RL(src)
         [] o.op = "Index" -> RI(IF n = 0 THEN 0 ELSE At(src, o.a % n))          \* wrap-around
         [] o.op = "NegIndex" -> IF o.a <= n THEN RI(At(src, n - o.a)) ELSE RE("IndexError")
         [] o.op = "SliceTo" -> RL(Pick(src, Range(o.a, Min(o.b, n), o.c)))
         [] o.op = "SliceNegStop" -> RL(Pick(src, Range(o.a, Max(n - o.b, 0), o.c)))
         [] o.op = "SliceFrom" -> RL(Pick(src, Range(o.a, n, o.c)))
         [] o.op = "Len" -> RI(n)
         [] o.op \in {"Iter", "Copy", "Listify"} -> RL(src)
         [] o.op = "Bool" -> RI(B(n > 0))
         [] o.op = "Contains" -> RI(B(\E i \in 1..n : src[i] = o.a))
         [] o.op = "Eq" -> RI(B(src = EqPartner(src, o.a)))
         [] o.op = "Count" -> RI(CountIn(src, o.a))
         [] o.op = "Reversed" -> RL(Rev(src))
         [] o.op = "HasInd" -> RI(B(o.a < n))
         [] OTHER -> RE("?")

---------------------------------------------------------------------------
(* Impl: state s = [gen, raw]; src is the raw iterator's content           *)

Pull(src, s) ==       \* one __next__ (no-op at exhaustion; callers test Exhausted)
    IF s.raw < Len(src) THEN [s EXCEPT !.gen = Append(s.gen, src[s.raw + 1]), !.raw = s.raw + 1] ELSE s
Exhausted(src, s) == s.raw >= Len(src)

RECURSIVE PullAll(_, _)
PullAll(src, s) == IF Exhausted(src, s) THEN s ELSE PullAll(src, Pull(src, s))

(* pull until the cache holds k items or the source is exhausted *)
RECURSIVE PullTo(_, _, _)
PullTo(src, s, k) == IF Len(s.gen) >= k \/ Exhausted(src, s) THEN s ELSE PullTo(src, Pull(src, s), k)

(* has_ind(i): <<answer, state>> *)
HasInd(src, s, i) ==
    IF i < Len(s.gen) THEN <<TRUE, s>>
    ELSE LET s1 == PullTo(src, s, i + 1) IN <<Len(s1.gen) >= i + 1, s1>>

(* __getitem__(i), i >= 0 *)
GetItem(src, s, i) ==
    IF i < Len(s.gen) THEN <<At(s.gen, i), s>>
    ELSE LET s1 == PullTo(src, s, i + 1)
         IN <<IF s1.gen # <<>> THEN At(s1.gen, i % Len(s1.gen)) ELSE 0, s1>>

(* for i in idxs: if not has_ind(i): break; ret.append(self[i]) *)
RECURSIVE Collect(_, _, _, _)
Collect(src, s, idxs, acc) ==
    IF idxs = <<>> THEN <<acc, s>>
    ELSE LET h == HasInd(src, s, Head(idxs))
         IN IF ~h[1] THEN <<acc, h[2]>>
            ELSE LET g == GetItem(src, h[2], Head(idxs))
                 IN Collect(src, g[2], Tail(idxs), Append(acc, g[1]))

(* `for temp in self: if temp == x: return 1` -- iteration with early exit *)
RECURSIVE Scan(_, _, _, _)
Scan(src, s, i, x) ==
    LET h == HasInd(src, s, i)
    IN IF ~h[1] THEN <<0, h[2]>>
       ELSE IF At(h[2].gen, i) = x THEN <<1, h[2]>>
       ELSE Scan(src, h[2], i + 1, x)

(* a suspended iterator over the list: cursor i; next item = has_ind(i) then self[i] *)
RECURSIVE IterPull(_, _, _, _, _)
IterPull(src, s, i, k, acc) ==      \* take up to k items from cursor i
    IF k = 0 THEN <<acc, s, i>>
    ELSE LET h == HasInd(src, s, i)
         IN IF ~h[1] THEN <<acc, h[2], i>>
            ELSE IterPull(src, h[2], i + 1, k - 1, Append(acc, At(h[2].gen, i)))

(* the kept copy (deep_copy = a lazy VIEW through a suspended iterator of the original):
   cp = [on, gen, cur]; it fills its own cache by pulling the original's iterator *)
RECURSIVE CopyPullTo(_, _, _)
CopyPullTo(src, s, k) ==
    IF Len(s.cp.gen) >= k THEN s
    ELSE LET p == IterPull(src, s, s.cp.cur, 1, <<>>)
         IN IF p[1] = <<>> THEN [p[2] EXCEPT !.cp.cur = p[3]]
            ELSE CopyPullTo(src, [p[2] EXCEPT !.cp = [on |-> TRUE, gen |-> Append(s.cp.gen, p[1][1]), cur |-> p[3]]], k)
CopyOn(s) == IF s.cp.on THEN s ELSE [s EXCEPT !.cp = [on |-> TRUE, gen |-> <<>>, cur |-> 0]]

Big == 1000000

InitImpl == [gen |-> <<>>, raw |-> 0, it |-> -1, cp |-> [on |-> FALSE, gen |-> <<>>, cur |-> 0]]
Core(s, c) == [s EXCEPT !.gen = c.gen, !.raw = c.raw]

(* <<result, next state>> of one observation *)
ImplDo(src, s, o) ==
    CASE o.op = "IterTake" ->
           LET p == IterPull(src, s, IF s.it = -1 THEN 0 ELSE s.it, o.a, <<>>)
           IN <<RL(p[1]), [p[2] EXCEPT !.it = p[3]]>>
      [] o.op = "IterDrain" ->
           LET p == IterPull(src, s, IF s.it = -1 THEN 0 ELSE s.it, Big, <<>>)
           IN <<RL(p[1]), [p[2] EXCEPT !.it = -1]>>
      [] o.op = "CopyIndex" ->
           LET s1 == CopyPullTo(src, CopyOn(s), o.a + 1)
           IN <<RI(IF s1.cp.gen # <<>> THEN At(s1.cp.gen, o.a % Len(s1.cp.gen)) ELSE 0), s1>>
      [] o.op = "CopyList" ->
           LET s1 == CopyPullTo(src, CopyOn(s), Big) IN <<RL(s1.cp.gen), s1>>
      [] o.op = "Index" -> LET g == GetItem(src, s, o.a) IN <<RI(g[1]), g[2]>>
      [] o.op = "NegIndex" ->
           LET s1 == PullAll(src, s)
           IN <<IF o.a <= Len(s1.gen) THEN RI(At(s1.gen, Len(s1.gen) - o.a)) ELSE RE("IndexError"), s1>>
      [] o.op = "SliceTo" -> LET c == Collect(src, s, Range(o.a, o.b, o.c), <<>>) IN <<RL(c[1]), c[2]>>
      [] o.op = "SliceNegStop" ->
           LET s1 == PullAll(src, s)            \* stop = len(self) + stop
               c == Collect(src, s1, Range(o.a, Len(s1.gen) - o.b, o.c), <<>>)
           IN <<RL(c[1]), c[2]>>
      [] o.op = "SliceFrom" ->
           LET s1 == PullAll(src, s)            \* `while self.has_ind(i)` ends only at exhaustion
           IN <<RL(Pick(s1.gen, Range(o.a, Len(s1.gen), o.c))), s1>>
      [] o.op = "Len" -> LET s1 == PullAll(src, s) IN <<RI(Len(s1.gen)), s1>>
      [] o.op \in {"Iter", "Copy", "Listify"} -> LET s1 == PullAll(src, s) IN <<RL(s1.gen), s1>>
      [] o.op = "Bool" ->
           IF s.gen # <<>> THEN <<RI(1), s>>
           ELSE LET s1 == Pull(src, s) IN <<RI(B(s1.gen # <<>>)), s1>>
      [] o.op = "Contains" -> LET c == Scan(src, s, 0, o.a) IN <<RI(c[1]), c[2]>>
      [] o.op = "Eq" ->
           LET s1 == PullAll(src, s)
           IN <<RI(B(s1.gen = EqPartner(src, o.a))), s1>>
      [] o.op = "Count" -> LET s1 == PullAll(src, s) IN <<RI(CountIn(s1.gen, o.a)), s1>>
      [] o.op = "Reversed" -> LET s1 == PullAll(src, s) IN <<RL(Rev(s1.gen)), s1>>
      [] o.op = "HasInd" -> LET h == HasInd(src, s, o.a) IN <<RI(B(h[1])), h[2]>>
      [] OTHER -> <<RE("?"), s>>

Op(name, a, b, c) == [op |-> name, a |-> a, b |-> b, c |-> c]

IsPrefixOf(p, s) == Len(p) <= Len(s) /\ p = SubSeq(s, 1, Len(p))
====
