SPECIFICATION Spec
CONSTANT MaxDigits = 4
INVARIANT ConvOK
INVARIANT AddOK
INVARIANT MulOK
INVARIANT LeqOK
INVARIANT EqOK
INVARIANT DenoteOK
CHECK_DEADLOCK FALSE
