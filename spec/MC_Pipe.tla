---- MODULE MC_Pipe ----
(***************************************************************************)
(* C14 at design level: demand-driven evaluation of Take(n) on every       *)
(* pipeline of <= MaxStages stages.  have[i] = items available at level i  *)
(* (level 1 = pulled from the source, level k+1 = outputs of the pipeline).*)
(*   Pull      the source yields one more item, only while one is needed   *)
(*   Emit(i)   stage i produces its next output once its input suffices    *)
(* Checked: Take(n) terminates (weak fairness), the source is never        *)
(* over-pulled, and the demand is within the composed linear bound.        *)
(***************************************************************************)
EXTENDS VyLazyPipe, TLC

CONSTANTS MaxStages, MaxN

Kinds == {St("same", 0), St("filter", 3), St("ahead", 0), St("window", 3), St("chunk", 3), St("drop", 5),
          St("every", 2), St("pre", 1), St("half", 0)}
Pipes == UNION {[1..k -> Kinds] : k \in 1..MaxStages}

VARIABLES pipe, n, have
vars == <<pipe, n, have>>

K == Len(pipe)
RECURSIVE NeedAt(_)
NeedAt(level) == IF level = K + 1 THEN n ELSE NeedCount(pipe[level], NeedAt(level + 1))

Init == /\ pipe \in Pipes /\ n \in {1, 5, MaxN}
        /\ have = [i \in 1..(Len(pipe) + 1) |-> 0]

Pull == /\ have[1] < NeedAt(1)
        /\ have' = [have EXCEPT ![1] = @ + 1]
        /\ UNCHANGED <<pipe, n>>
Emit(i) == /\ have[i + 1] < NeedAt(i + 1)
           /\ have[i] >= NeedCount(pipe[i], have[i + 1] + 1)
           /\ have' = [have EXCEPT ![i + 1] = @ + 1]
           /\ UNCHANGED <<pipe, n>>
Next == Pull \/ \E i \in 1..K : Emit(i)
Spec == Init /\ [][Next]_vars /\ WF_vars(Next)

Done == have[K + 1] = n
Terminates == <>Done
NeverOverPulls == have[1] <= Need(pipe, n)
DemandIsComposed == NeedAt(1) = Need(pipe, n)
LinearBound == LET l == LinBound(pipe) IN Need(pipe, n) <= l[1] * n + l[2]
====
