"""C07 Rational arithmetic is exact and stays inside the number types.

Spec:  MC_Arith (VyArith/BigInt predicates agree with native exact arithmetic
       on every pair of small rationals x 6 operators; perturbed results and
       wrong witnesses are rejected; field identities).
Bind:  the real overloads are called on every pair of the small domain, on
       sampled large rationals and along random expression trees (each
       intermediate call logged); TLC recognises every logged result by
       cross-multiplication over unbounded integers.
"""
from __future__ import annotations

import math
import time
from fractions import Fraction

from . import common, runner, tlc

PID = "C07"
OPS = {"add": "add", "sub": "subtract", "mul": "multiply", "div": "divide", "mod": "modulo", "idiv": "integer_divide"}


def to_vy(fr, as_literal=False):
    """integers reach the overloads both as Python ints (results of arithmetic) and as sympy Integers
    (number literals push those)"""
    import sympy

    if fr.denominator == 1:
        return sympy.Integer(int(fr.numerator)) if as_literal else int(fr.numerator)
    return sympy.Rational(fr.numerator, fr.denominator)


def rat_json(fr):
    return {"neg": fr < 0, "num": runner.digits_of(fr.numerator), "den": runner.digits_of(fr.denominator)}


def call(op, a, b):
    """one logged call; a, b are Fractions; returns (event, result Fraction or None)"""
    import sympy
    import vyxal.elements as E
    from vyxal.context import Context

    ev = {"op": op, "a": rat_json(a), "b": rat_json(b), "err": "", "rty": "", "r": rat_json(Fraction(0)),
          "k": rat_json(Fraction(math.floor(a / b)) if b != 0 else Fraction(0))}
    lit = (a.numerator * 7 + b.numerator * 3 + len(op)) % 4      # deterministic mix of operand representations
    try:
        r = getattr(E, OPS[op])(to_vy(a, lit in (1, 3)), to_vy(b, lit in (2, 3)), Context())
    except Exception as e:  # noqa: BLE001
        ev["err"] = type(e).__name__
        return ev, None
    j = runner.num_json(r)
    ev["rty"] = j["ty"]
    if j["ty"] in ("int", "rational"):
        ev["r"] = {"neg": j["neg"], "num": j["num"], "den": j["den"]}
        fr = Fraction(int(r)) if isinstance(r, int) else Fraction(int(r.p), int(r.q))
        return ev, fr
    ev["shown"] = str(r)[:80]
    return ev, None


def call_text(op, ta, tb):
    """operands that arrive as decimal INPUT text (read by vy_eval, as program inputs are): a decimal with at most 15
    significant digits denotes exactly itself"""
    import vyxal.elements as E
    from vyxal.context import Context
    from vyxal.helpers import vy_eval

    a, b = Fraction(ta), Fraction(tb)
    ev = {"op": op, "a": rat_json(a), "b": rat_json(b), "err": "", "rty": "", "r": rat_json(Fraction(0)),
          "k": rat_json(Fraction(math.floor(a / b)) if b != 0 else Fraction(0))}
    try:
        ctx = Context()
        r = getattr(E, OPS[op])(vy_eval(ta, ctx), vy_eval(tb, ctx), ctx)
    except Exception as e:  # noqa: BLE001
        ev["err"] = type(e).__name__
        return ev
    j = runner.num_json(r)
    ev["rty"] = j["ty"]
    if j["ty"] in ("int", "rational"):
        ev["r"] = {"neg": j["neg"], "num": j["num"], "den": j["den"]}
    else:
        ev["shown"] = str(r)[:80]
    return ev


OPCHAR = {"add": "+", "sub": "-", "mul": "*", "div": "/", "mod": "%", "idiv": "ḭ"}
PYOP = {"add": lambda a, b: a + b, "sub": lambda a, b: a - b, "mul": lambda a, b: a * b,
        "div": lambda a, b: a / b if b != 0 else Fraction(0), "mod": lambda a, b: a % b,
        "idiv": lambda a, b: Fraction(math.floor(a / b)) if b != 0 else Fraction(0)}


def event_from(op, a, b, r):
    """an event for a result that some route produced for `a op b`"""
    ev = {"op": op, "a": rat_json(a), "b": rat_json(b), "err": "", "rty": "", "r": rat_json(Fraction(0)),
          "k": rat_json(Fraction(math.floor(a / b)) if b != 0 else Fraction(0))}
    j = runner.num_json(r)
    ev["rty"] = j["ty"]
    if j["ty"] in ("int", "rational"):
        ev["r"] = {"neg": j["neg"], "num": j["num"], "den": j["den"]}
    else:
        ev["shown"] = str(r)[:80]
    return ev


def observe_routes(case):
    """the same arithmetic reached by other routes than one call: a FOLD over a list (every step is the binary
    operation on the exact running value), a VECTORISED call (scalar with list, list with scalar: item by item),
    and a PROGRAM whose operands are written as literals"""
    import vyxal.elements as E
    import vyxal.helpers as H
    from vyxal.context import Context

    kind = case[0]
    ctx = Context()
    calls = []
    try:
        if kind == "fold":
            _, op, items = case
            fn = getattr(E, OPS[op])
            r = H.foldl(fn, [to_vy(x) for x in items], ctx=ctx) if op != "mul" else E.product([to_vy(x) for x in items], ctx)
            acc = items[0]
            for x in items[1:-1]:
                acc = PYOP[op](acc, x)
            calls.append(event_from(op, acc, items[-1], r))
        elif kind == "vec":
            _, op, scalar, items, scalar_left = case
            fn = getattr(E, OPS[op])
            lst = [to_vy(x) for x in items]
            r = fn(to_vy(scalar), lst, ctx) if scalar_left else fn(lst, to_vy(scalar), ctx)
            got = list(r)
            if len(got) != len(items):
                return {"calls": [{**event_from(op, scalar, items[0], 0), "err": "length"}]}
            for x, g in zip(items, got):
                calls.append(event_from(op, scalar, x, g) if scalar_left else event_from(op, x, scalar, g))
        elif kind == "prog":
            _, op, ta, tb = case
            stack, _c, err = runner.exec_text(f"{ta} {tb}{OPCHAR[op]}")
            a, b = Fraction(ta), Fraction(tb)
            if err or len(stack) != 1:
                return {"calls": [{**event_from(op, a, b, 0), "err": "program:" + (err or f"{len(stack)}-values")[:40]}]}
            calls.append(event_from(op, a, b, stack[0]))
    except Exception as e:  # noqa: BLE001
        return {"calls": [{**event_from("add", Fraction(0), Fraction(1), 0), "err": type(e).__name__}]}
    return {"calls": calls}


def observe(case):
    kind = case[0]
    if kind in ("fold", "vec", "prog"):
        return observe_routes(case)
    if kind == "text":
        return {"calls": [call_text(case[1], case[2], case[3])]}
    if kind == "pair":
        _, op, a, b = case
        ev, _ = call(op, a, b)
        return {"calls": [ev]}
    # expression tree in postfix: list of Fractions and operator names
    _, postfix = case
    st, calls = [], []
    for tok in postfix:
        if isinstance(tok, Fraction):
            st.append(tok)
        else:
            b, a = st.pop(), st.pop()
            if tok == "mod" and b == 0:
                st.append(a)
                continue
            ev, r = call(tok, a, b)
            calls.append(ev)
            if r is None:
                break
            st.append(r)
    return {"calls": calls}


def gen_tree(rng, depth, wide=False):
    if depth == 0 or rng.random() < 0.25:
        if wide:    # leaves of the whole stated domain: chains reach magnitudes far from 1 (1e-20 .. 1e+30)
            p = rng.choice([rng.randint(-9, 9), rng.randint(-10 ** 6, 10 ** 6)])
            return [Fraction(p, rng.choice([1, rng.randint(1, 10 ** 4), 10 ** 4, 9999]))]
        return [Fraction(rng.randint(-9, 9), rng.randint(1, 6))]
    ops = ["add", "sub", "mul", "div"] + (["mul", "div", "idiv", "mod"] if wide else [])
    return gen_tree(rng, depth - 1, wide) + gen_tree(rng, depth - 1, wide) + [rng.choice(ops)]


def main(tier):
    t0 = time.time()
    rng = common.rng(7)
    V = common.Verdicts(PID)
    cs = []
    mx, dn = (6, 4) if tier == "quick" else (12, 6)
    small = sorted({Fraction(p, q) for p in range(-mx, mx + 1) for q in range(1, dn + 1)})
    for a in small:
        for b in small:
            for op in OPS:
                if op == "mod" and b == 0:
                    continue
                cs.append(("pair", op, a, b))
    for _ in range(2000 if tier == "quick" else 20000):
        a = Fraction(rng.randint(-10 ** 6, 10 ** 6), rng.randint(1, 10 ** 4))
        b = Fraction(rng.randint(-10 ** 6, 10 ** 6), rng.randint(1, 10 ** 4))
        if rng.random() < 0.3:
            a, b = Fraction(a.numerator), Fraction(b.numerator)
        op = rng.choice(list(OPS))
        if op == "mod" and b == 0:
            continue
        cs.append(("pair", op, a, b))
    big = [Fraction(10 ** k + d) for k in (9, 18, 30, 45) for d in (-1, 0, 1)] + [Fraction(2 ** 64, 3), Fraction(-(10 ** 20), 7)]
    for a in big:
        for b in big[:6] + [Fraction(17), Fraction(-3, 5)]:
            for op in OPS:
                cs.append(("pair", op, a, b))
    for _ in range(500 if tier == "quick" else 5000):
        cs.append(("tree", gen_tree(rng, rng.randint(2, 5))))
    for _ in range(1500 if tier == "quick" else 20000):
        cs.append(("tree", gen_tree(rng, rng.randint(2, 5), wide=True)))
    # operands read from decimal input text (13-15 significant digits, values close to simple fractions included)
    texts = ["0.333333333333333", "0.666666666666667", "0.142857142857143", "0.1", "2.75", "1234.5678", "0.000000100000001",
             "0.999999999999999", "3.14159265358979", "0.123456789012345", "12345678.9012345", "7", "-0.333333333333333",
             "0.30000000000001", "1.00000000000001", "0.5", "-2.5", "100000000000001"]
    for ta in texts:
        for tb in texts[:10] + ["3", "0.3"]:
            for op in OPS:
                if not (op == "mod" and Fraction(tb) == 0):
                    cs.append(("text", op, ta, tb))
    for _ in range(300 if tier == "quick" else 6000):
        def dec():
            n = rng.randint(13, 15)
            digs = "".join(rng.choice("0123456789") for _ in range(n)).lstrip("0") or "1"
            k = rng.randint(0, len(digs))
            return ("-" if rng.random() < 0.2 else "") + (digs[:k] or "0") + "." + (digs[k:] or "0")
        ta, tb = dec(), dec()
        op = rng.choice(list(OPS))
        if not (op == "mod" and Fraction(tb) == 0):
            cs.append(("text", op, ta, tb))
    # EXACT divisions whose quotient is beyond 2^53 (and just below), divisor small or large: every representation
    # of the operands (the case index picks Python ints / sympy Integers)
    for q in (2 ** 53 + 1, 2 ** 53 - 1, 10 ** 17 + 3, 10 ** 20 + 7, 3 ** 40, 2 ** 64, -(2 ** 53 + 5), 10 ** 30 + 1):
        for b in (3, 7, 10 ** 6 + 3, 2 ** 31 - 1, -9, 1, 2 ** 53 + 1):
            for op in ("div", "idiv", "mod", "mul"):
                for shift in (0, 1, 2, 3):      # shifts the deterministic choice of operand representation
                    cs.append(("pair", op, Fraction(q * b), Fraction(b) if shift < 2 else Fraction(b * (1 if shift == 2 else -1))))
                    cs.append(("pair", op, Fraction(q * b + shift), Fraction(b)))
    # other routes to the same arithmetic: folds (a partial result of 0 included), vectorised calls with the scalar
    # on either side, programs whose operands are literals (leading "0.", ".5", trailing point)
    def frac():
        return Fraction(rng.randint(-9, 9), rng.choice([1, 1, 2, 3, 4]))
    for _ in range(400 if tier == "quick" else 6000):
        items = [frac() for _ in range(rng.randint(2, 5))]
        if rng.random() < 0.4:
            items[rng.randrange(len(items) - 1)] = Fraction(0)
        if rng.random() < 0.3:
            items[1] = items[0]                      # a difference / quotient that passes through 0 or 1
        cs.append(("fold", rng.choice(["sub", "mul", "add", "div"]), items))
    for items in ([Fraction(1, 2), Fraction(0), Fraction(3, 4)], [Fraction(1, 2), Fraction(1, 2), Fraction(1, 3)], [Fraction(3), Fraction(3), Fraction(5)],
                  [Fraction(0), Fraction(2), Fraction(4)]):
        for op in ("sub", "mul", "div", "add"):
            cs.append(("fold", op, items))
    for _ in range(300 if tier == "quick" else 4000):
        cs.append(("vec", rng.choice(["sub", "div", "mod", "idiv", "add", "mul"]), frac() or Fraction(1),
                   [x for x in (frac() for _ in range(rng.randint(1, 4))) if x != 0] or [Fraction(2)], rng.random() < 0.5))
    lits = ["0.5", "0.25", ".5", "3", "2.75", "0.125", "10", "7.", "1.5", "0.75", "12", "0.2"]
    for ta in lits:
        for tb in lits:
            for op in OPS:
                cs.append(("prog", op, ta, tb))
    # magnitudes far from 1 on either side: tiny and huge operands against ordinary ones
    tiny = [Fraction(n, 10 ** k) for k in (9, 10, 11, 12, 15, 20, 40) for n in (1, -1, 3, 7)] + \
           [Fraction(10 ** k + 1, 10 ** (2 * k)) for k in (6, 12)]
    ordinary = [Fraction(7), Fraction(-3, 5), Fraction(1, 10 ** 4), Fraction(10 ** 6), Fraction(22, 7), Fraction(0), Fraction(1)]
    for a in tiny:
        for b in ordinary + tiny[:8]:
            for op in OPS:
                for x, y in ((a, b), (b, a)):
                    if not (op == "mod" and y == 0):
                        cs.append(("pair", op, x, y))
    common.import_repo()
    with common.Scratch(PID) as s:
        mc = tlc.model_check(s, "MC_Arith", cfg="MC_Arith_quick" if tier == "quick" else "MC_Arith", workers=16)
        if not mc["ok"]:
            V.add("spec:MC_Arith:" + str(mc["violated"]), {"trace": tlc.counterexample(mc["out"])})
        obs = common.pool_map(observe, cs, initfn=common.import_repo)
        verdicts, st = tlc.validate(s, "Trace_Arith", obs, cfg="Trace_Arith.cfg", chunk=4000)
    tally = {}
    ncalls = 0
    for c, v, o in zip(cs, verdicts, obs):
        ncalls += len(o["calls"])
        key = v.split("@")[0]
        tally[key] = tally.get(key, 0) + 1
        if v.startswith("violation"):
            i = int(v.split("@")[1]) - 1
            ev = o["calls"][i]

            def fr(x):
                n = int("".join(map(str, x["num"])))
                d = int("".join(map(str, x["den"])))
                return f"{'-' if x['neg'] else ''}{n}" + ("" if d == 1 else f"/{d}")

            V.add(f"{key.split(':', 1)[1]}:{fr(ev['a'])}:{fr(ev['b'])}",
                  {"op": ev["op"], "a": fr(ev["a"]), "b": fr(ev["b"]), "result_type": ev["rty"],
                   "result": fr(ev["r"]) if ev["rty"] in ("int", "rational") else ev.get("shown", ""), "verdict": v})
    rc = V.finish()
    common.write_evidence(
        PID, tier, t0,
        {
            "states": mc["distinct"], "transitions": mc["generated"], "traces_validated_against_impl": len(cs),
            "samples": [{"case": [str(x) for x in c[1:]][:8], "verdict": v} for c, v in list(zip(cs, verdicts))[:: max(1, len(cs) // 12)][:12]],
            "evaluations": ncalls, "distinct_nontrivial": len(cs),
            "rule": f"every pair of rationals |p| <= {mx}, q <= {dn} x 6 operators (modulo by zero excluded); sampled pairs "
                    "|p| <= 10^6, q <= 10^4; boundary integers near 10^9 .. 10^45; random expression trees of depth <= 5 "
                    "over + - * / with every intermediate call logged; all cases distinct",
            "verdicts": tally, "mc": {"module": "MC_Arith", "distinct": mc["distinct"],
                                      "invariants": ["Accepts", "Rejects", "WrongWitnessRejected", "Identities"]},
            "trace_tlc": {k: st[k] for k in st if k != "extra"}, "exhaustive": False,
        },
        ["results are logged from .p/.q of sympy Rationals (no float conversion)",
         "modulo is checked with a floor witness computed by the harness and verified by TLC",
         "transcribed-function form: the ∀ is over inputs"],
        len(V.violations),
    )
    print(f"C07 {tier}: {len(cs)} cases / {ncalls} calls, verdicts {tally}, MC {mc['distinct']} states, {time.time() - t0:.1f}s")
    return rc
