---- MODULE MC_Online ----
(***************************************************************************)
(* C19 at design level: output routing, evaluation of user text and error  *)
(* reporting of execute_vyxal, for both modes.  The environment chooses    *)
(* the mode and then any sequence of the effects a program can have:       *)
(*   DoPrint(t)       vy_print / LazyList.output                             *)
(*   EvalStr        the evaluate element on a string (helpers.vy_eval)     *)
(*   CallStr        the call element on a string (elements.function_call)  *)
(*   ParseInput     main.execute_vyxal parsing an input line (vy_eval)     *)
(*   ExecVyxal      the Vyxal-exec element on a string: transpile + exec   *)
(*                  of VYXAL text (never counts as executing user Python)  *)
(*   Fail           an exception in transpile / exec                       *)
(* hostOut is what reaches the host's stdout, rec1 / rec2 the caller's     *)
(* output and error records, pyExec counts user text executed as Python.   *)
(***************************************************************************)
EXTENDS Integers, Sequences, TLC

CONSTANT MaxSteps
Texts == {<<97>>, <<98, 10>>}

VARIABLES online, hostOut, rec1, rec2, pyExec, pc, n
vars == <<online, hostOut, rec1, rec2, pyExec, pc, n>>

Init == /\ online \in BOOLEAN /\ hostOut = <<>> /\ rec1 = <<>> /\ rec2 = <<>>
        /\ pyExec = 0 /\ pc = "run" /\ n = 0

Live == pc = "run" /\ n < MaxSteps
Tick == n' = n + 1

DoPrint(t) ==
    /\ Live /\ Tick
    /\ IF online THEN rec1' = rec1 \o t /\ UNCHANGED hostOut
                 ELSE hostOut' = hostOut \o t /\ UNCHANGED rec1
    /\ UNCHANGED <<online, rec2, pyExec, pc>>
(* online: ast.literal_eval, offline: eval *)
EvalStr == /\ Live /\ Tick /\ pyExec' = IF online THEN pyExec ELSE pyExec + 1
           /\ UNCHANGED <<online, hostOut, rec1, rec2, pc>>
CallStr == /\ Live /\ Tick /\ pyExec' = IF online THEN pyExec ELSE pyExec + 1
           /\ UNCHANGED <<online, hostOut, rec1, rec2, pc>>
ParseInput == /\ Live /\ Tick /\ pyExec' = IF online THEN pyExec ELSE pyExec + 1
              /\ UNCHANGED <<online, hostOut, rec1, rec2, pc>>
ExecVyxal == /\ Live /\ Tick /\ UNCHANGED <<online, hostOut, rec1, rec2, pyExec, pc>>
Fail == /\ Live /\ Tick
        /\ IF online THEN rec2' = rec2 \o <<10, 69>> /\ pc' = "exit"       \* traceback recorded, sys.exit(1)
                     ELSE rec2' = rec2 /\ pc' = "raised"                    \* the exception propagates
        /\ UNCHANGED <<online, hostOut, rec1, pyExec>>
Finish == /\ pc = "run" /\ pc' = "done" /\ UNCHANGED <<online, hostOut, rec1, rec2, pyExec, n>>

Next == (\E t \in Texts : DoPrint(t)) \/ EvalStr \/ CallStr \/ ParseInput \/ ExecVyxal \/ Fail \/ Finish
Spec == Init /\ [][Next]_vars

NoHostOutput == online => hostOut = <<>>
NoUserPython == online => pyExec = 0
ErrorsRecorded == online => (pc # "raised" /\ (pc = "exit" => rec2 # <<>>))
OutputOnlyGrows == [][Len(rec1') >= Len(rec1) /\ SubSeq(rec1', 1, Len(rec1)) = rec1]_vars
ModeIsFixed == [][online' = online]_vars
====
