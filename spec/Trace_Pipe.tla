---- MODULE Trace_Pipe ----
(***************************************************************************)
(* C14 on the implementation: a pipeline of catalogued transformations is  *)
(* applied to an instrumented infinite source (it counts pulls); the       *)
(* harness then reads items 0, 1, 2, ... one at a time.  Events:           *)
(*   [e |-> "out", j, pulled]   item j was delivered, pulls so far         *)
(*   [e |-> "hang", j]          item j did not arrive within the budget    *)
(*   [e |-> "raise", j, what]                                              *)
(* pipe is the sequence of stage kinds (VyLazyPipe) of the transformations.*)
(* One TLC step per event.  Prop_C14 after out(j): pulled <= Allowed(pipe, *)
(* j+1); a hang or an exception is a violation (termination).              *)
(***************************************************************************)
EXTENDS VyLazyPipe, Json, IOUtils, TLC, TLCExt

BatchFile == JsonDeserialize(IOEnv.TRACE_FILE)
ASSUME TLCSet(7, BatchFile)
Batch == TLCGet(7)

VARIABLES tid, l, verdict, hi      \* hi: the largest item index demanded so far
T == Batch[tid]
Pipe(t) == [i \in 1..Len(t.pipe) |-> St(t.pipe[i].kind, t.pipe[i].p)]

Init == tid \in 1..Len(Batch) /\ l = 1 /\ verdict = "ok" /\ hi = 0

Step ==
    /\ l <= Len(T.ev)
    /\ LET e == T.ev[l]
           v == IF e.e = "hang" THEN "violation:does-not-terminate@" \o ToString(e.j)
                ELSE IF e.e = "raise" THEN "violation:raised-" \o e.what
                ELSE IF e.pulled > Allowed(Pipe(T), (IF e.j > hi THEN e.j ELSE hi) + 1) THEN "violation:pulls-beyond-linear-bound@" \o ToString(e.j)
                ELSE "ok"
       IN /\ verdict' = IF verdict = "ok" THEN v ELSE verdict
          /\ l' = IF v = "ok" THEN l + 1 ELSE Len(T.ev) + 1
    /\ hi' = IF T.ev[l].j > hi THEN T.ev[l].j ELSE hi
    /\ tid' = tid
    /\ (l' <= Len(T.ev) \/ PrintT(<<"V", tid, verdict'>>))
Empty == l = 1 /\ Len(T.ev) = 0 /\ l' = 2 /\ UNCHANGED <<tid, verdict, hi>> /\ PrintT(<<"V", tid, "skip:no-events">>)
Next == Step \/ Empty
====
