---- MODULE VyNumber ----
(***************************************************************************)
(* Denotation of number tokens (C05): the rational a literal spells.       *)
(* A rational is <<neg, num, den>> with num, den BigNat; equality of       *)
(* rationals is decided by cross-multiplication (no gcd needed).           *)
(*   PointIsHalf : the token "." denotes 1/2 (transpile.py: "0.5")         *)
(*   a trailing point is ignored ("5." is 5), a leading point is a         *)
(*   fraction (".5" is 1/2)                                                *)
(***************************************************************************)
EXTENDS VyLexer, BigNat

DigitVals(s) == [i \in 1..Len(s) |-> s[i] - 48]

PointPos(s) == IF \E i \in 1..Len(s) : s[i] = c_dot
               THEN CHOOSE i \in 1..Len(s) : s[i] = c_dot ELSE 0

IsPlainNumber(s) == /\ s # <<>>
                    /\ \A i \in 1..Len(s) : s[i] \in Digits \cup {c_dot}
                    /\ Count(s, c_dot) <= 1

(* <<numerator, denominator>> as BigNat *)
Denote(s) ==
    IF s = <<c_dot>> THEN <<<<1>>, <<2>>>>                         \* PointIsHalf
    ELSE LET p == PointPos(s)
         IN IF p = 0 THEN <<FromDigits(DigitVals(s)), <<1>>>>
            ELSE LET ip == SubSeq(s, 1, p - 1)
                     fp == SubSeq(s, p + 1, Len(s))
                 IN <<FromDigits(DigitVals(ip \o fp)), BigPow10(Len(fp))>>

RatEq(n1, d1, n2, d2) == BigEq(BigMul(n1, d2), BigMul(n2, d1))
====
