"""Harness-side instrumentation (no source hooks): statement probes.

`install()` replaces vyxal.transpile.transpile_single / lambda_wrap by
wrappers that prefix the code of every Structure *statement* with
`__vy_probe__(nid, stack, ctx)` and plants the probe function in the two
namespaces transpiled code is exec-ed in.  The probe is the linearization
point: it runs before statement nid, i.e. after the previous statement's
effect is complete.  Only probes of the module frame are logged.
"""
from __future__ import annotations

import sys

from . import common, runner


class ProbeBudget(BaseException):
    """raised out of a runaway program (BaseException: not caught by `except Exception`)"""


class State:
    def __init__(self):
        self.events = []
        self.count = 0
        self.budget = 200
        self.max_events = 150
        self.sigs = {}
        self.on = False


ST = State()


def _sig(n):
    from vyxal import structure as S

    from . import project

    if isinstance(n, S.GenericStatement):
        t = n.branches[0][0]
        return {"t": "gen", "k": t.name.value, "v": common.cps(t.value)}
    return {"t": project.node(n)["t"] if not isinstance(n, (S.IfStatement, S.ListLiteral, S.ForLoop, S.WhileLoop,
                                                             S.FunctionDef, S.Lambda, S.LambdaOp, S.MonadicModifier,
                                                             S.DyadicModifier, S.TriadicModifier)) else _kind(n),
            "k": "", "v": []}


def _kind(n):
    from vyxal import structure as S

    for cls, name in ((S.IfStatement, "if"), (S.ListLiteral, "list"), (S.ForLoop, "for"), (S.WhileLoop, "while"),
                      (S.FunctionDef, "fndef"), (S.LambdaMap, "lmap"), (S.LambdaFilter, "lfilter"),
                      (S.LambdaSort, "lsort"), (S.Lambda, "lam"), (S.MonadicModifier, "mon"),
                      (S.DyadicModifier, "dy"), (S.TriadicModifier, "tri")):
        if isinstance(n, cls):
            return name
    return "?"


def _vj(v):
    """shape-only projection for probes; a value too big to carry is a wildcard"""
    try:
        return runner.value_json(v, force=False, limit=60)
    except (runner.TooBig, ValueError, OverflowError):      # (an integer of thousands of digits cannot be written out)
        return {"w": 1}


def probe(nid, stack, ctx):
    st = ST
    if not st.on:
        return
    st.count += 1
    if st.count > st.budget:
        raise ProbeBudget()
    if sys._getframe(1).f_code.co_name != "<module>":
        return
    if len(st.events) >= st.max_events:
        raise ProbeBudget()
    st.events.append({
        "ev": "Probe", "sig": st.sigs.get(nid, {"t": "?", "k": "", "v": []}),
        "stack": [_vj(v) for v in stack],
        "d": [len(ctx.context_values), len(ctx.inputs), len(ctx.stacks), len(ctx.function_stack)],
        "ctx": _vj(ctx.context_values[-1]) if ctx.context_values else {"x": "empty"},
        "reg": _vj(ctx.register),
    })


_installed = False


def install():
    global _installed
    if _installed:
        return
    common.import_repo()
    import vyxal.elements as E
    import vyxal.main as M
    import vyxal.transpile as T
    from vyxal import structure as S
    from vyxal.helpers import indent_str

    orig_single = T.transpile_single
    orig_wrap = T.lambda_wrap

    def lambda_wrap(branch):
        lam = orig_wrap(branch)
        try:
            lam._verif_operand = True
        except Exception:  # noqa: BLE001
            pass
        return lam

    def transpile_single(token_or_struct, indent, dict_compress=True):
        code = orig_single(token_or_struct, indent, dict_compress=dict_compress)
        if ST.on and isinstance(token_or_struct, S.Structure) and not getattr(token_or_struct, "_verif_operand", False):
            nid = len(ST.sigs) + 1
            ST.sigs[nid] = _sig(token_or_struct)
            return indent_str(f"__vy_probe__({nid}, stack, ctx)", indent) + code
        return code

    T.transpile_single = transpile_single
    T.lambda_wrap = lambda_wrap
    M.__vy_probe__ = probe
    E.__vy_probe__ = probe
    T.__vy_probe__ = probe
    _installed = True


def run_traced(text, flags="", inputs=(), budget=200, online=False):
    """execute_vyxal(text, flags+'e', inputs) with probes; returns the trace dict.

    inputs: Python values (already evaluated); they are handed over as their
    repr so that execute_vyxal's own vy_eval parses them.
    """
    install()
    import vyxal.main as M
    from vyxal.context import Context

    ST.events = []
    ST.count = 0
    ST.budget = budget
    ST.sigs = {}
    ST.on = True
    holder = {}
    orig_ctx = M.Context

    class SpyContext(orig_ctx):
        def __init__(self):
            super().__init__()
            holder["ctx"] = self

    M.Context = SpyContext
    # what the interpreter will hold as the program's inputs (values given as Python values are handed over as their
    # repr and parsed back to themselves; texts go through input parsing and are not predicted here)
    try:
        holder["inputs0"] = None if any(isinstance(x, str) for x in inputs) else [runner.value_json(x) for x in inputs]
    except BaseException:  # noqa: BLE001
        holder["inputs0"] = None
    raised = ""
    final_stack = None
    record = {1: "", 2: ""}
    rec1 = ""
    import builtins

    builtins.VY_CANARY = []
    try:
        with runner.CaptureStdout() as cap:
            try:
                if online:
                    common.with_alarm(lambda _: M.execute_vyxal(
                        text, flags + "e", "\n".join(x if isinstance(x, str) else repr(x) for x in inputs),
                        record, online_mode=True), None, 4)
                else:
                    common.with_alarm(lambda _: M.execute_vyxal(
                        text, flags + "e", [x if isinstance(x, str) else repr(x) for x in inputs]), None, 4)
            except ProbeBudget:
                raised = "budget"
            except common.CaseTimeout:
                raised = "timeout"
            except SystemExit:
                raised = "SystemExit"
            except RecursionError:
                raised = "RecursionError"
            except Exception as e:  # noqa: BLE001
                raised = type(e).__name__
            ctx = holder.get("ctx")
            d = ([len(ctx.context_values), len(ctx.inputs), len(ctx.stacks), len(ctx.function_stack)]
                 if ctx else [0, 0, 0, 0])
            try:
                inchg = bool(ctx) and [runner.value_json(x) for x in ctx.inputs[0][0]] != holder.get("inputs0", None)
            except BaseException:  # noqa: BLE001
                inchg = False
            # (taken now: forcing lazy values below may run -- and abort -- lambda bodies)
            ctxv = _vj(ctx.context_values[-1]) if ctx and ctx.context_values else {"x": "empty"}
            cap.mark()                 # what the RUN printed: bodies forced below may print as well
            rec1 = record[1]
            # the module-level stack is the list registered in ctx.stacks[0]; forcing lazy values may
            # run (pure) lambda bodies, so it happens under the stdout capture, the probe budget and an alarm
            try:
                final_stack = common.with_alarm(
                    lambda _: [runner.value_json(v, force=True, limit=60)
                               for v in (ctx.stacks[0] if ctx and ctx.stacks else [])], None, 4)
            except (ProbeBudget, common.CaseTimeout, RecursionError, runner.TooBig, ValueError, OverflowError):
                final_stack = []
                raised = raised or "budget"      # not evaluated
            except BaseException as e:  # noqa: BLE001  forcing a lazy value may raise
                final_stack = [{"x": "force:" + type(e).__name__}]
    finally:
        M.Context = orig_ctx
        ST.on = False
    events = ST.events
    ST.events = []
    if raised in ("budget", "timeout", "RecursionError"):
        events = []  # the run is not evaluated (skip:impl-...); its probes would only cost validation time
    canary = len(getattr(builtins, "VY_CANARY", []))
    events.append({"ev": "Final", "stack": final_stack,
                   "out": common.cps(rec1 if online else cap.text_at_mark), "d": d, "raised": raised,
                   "host": len(cap.text) if online else 0, "rec2": len(record[2]), "canary": canary,
                   "ctx": ctxv, "inchg": bool(inchg) if holder.get("inputs0") is not None else False})
    return {"text": common.cps(text), "flags": sorted(set(flags)),
            "inputs": [runner.value_json(x) if not isinstance(x, str) else {"s": common.cps(x)} for x in inputs],
            "online": bool(online), "ev": events}
