---- MODULE Trace_Frame ----
(***************************************************************************)
(* C09: an element (or a modifier applied to elements) run on a stack of   *)
(* sentinels + arguments.  Logged: key, table arities ka / kb (runtime     *)
(* table), modifier (0 = none), ids and values of the stack entries before *)
(* and after, raised.                                                      *)
(* ka / kb are the DOCUMENTED arities where the documentation gives a      *)
(* number (else the table arity): "an element of arity k".                 *)
(* Prop_C09: the entries below the top Touched(...) are the same objects   *)
(* with the same values, in the same positions.  One of the entries below  *)
(* shares state with an argument (a copy made by dup, or the same object   *)
(* twice), as earlier program steps can arrange.                           *)
(* Whole-stack operations (documented: wrap, reverse stack, stack length,  *)
(* rotate, over, call; and Vyxal-exec of a string, which runs a program on *)
(* the caller's stack) are exempt.                                         *)
(***************************************************************************)
EXTENDS VyChars, Json, IOUtils, TLC, TLCExt

BatchFile == JsonDeserialize(IOEnv.TRACE_FILE)
ASSUME TLCSet(7, BatchFile)
Batch == TLCGet(7)

VARIABLES tid, phase
T == Batch[tid]

WholeStackKeys == {<<87>>,          \* W   wrap the stack
                   <<94>>,          \* ^   reverse the stack
                   <<33>>,          \* !   stack length
                   <<8222>>,        \* „   rotate left
                   <<8223>>,        \* ‟   rotate right
                   <<558>>}         \* Ȯ   over
(* † (call) reaches further down only when it calls a FUNCTION (which pops its own arity); on a number, a
   string or a list it is an ordinary element of arity 1 with one result -- no function is ever offered here *)
CallKey == <<8224>>
WrapTopN == <<168, 7815>>            \* ¨ẇ  wraps the top n entries: it may touch its argument n and n more
VyxalExec == <<278>>                 \* Ė on a string runs a program on this stack

Max2(a, b) == IF a > b THEN a ELSE b

(* how many entries from the top the construct may touch *)
Touched(t) ==
    CASE t.m = 0 /\ t.key = WrapTopN -> 1 + (IF t.topint >= 0 THEN t.topint ELSE 0)
      [] t.m = 0 -> t.ka
      [] t.m \in {m_v, m_amp} -> t.ka
      \* ~ with a dyad / triad only LOOKS at its arguments: they stay where they are (same objects, same order,
      \* under flag r too) and the result is added; with a monad it filters its one argument
      [] t.m = m_tilde -> IF t.ka >= 2 THEN 0 ELSE t.ka
      [] t.m = m_sz -> IF t.condtrue THEN t.ka + 1 ELSE 1              \* a falsy condition: only the condition goes
      [] t.m \in {m_fhook, m_dtail} -> 1
      [] t.m \in {m_para, m_paral} -> t.kb          \* the first element works on a COPY of the stack
      [] OTHER -> 0                    \* lambda-forming modifiers only push a function

Prop_C09(t) ==
    LET keep == Len(t.ids0) - Touched(t)
    IN keep <= 0 \/ ( /\ Len(t.ids1) >= keep
                      /\ SubSeq(t.ids1, 1, keep) = SubSeq(t.ids0, 1, keep)
                      /\ SubSeq(t.vals1, 1, keep) = SubSeq(t.vals0, 1, keep) )

(* "... and replaces the top k by the element's results": how many entries the construct leaves, where the
   templates fix it -- process_element's template (pop the arity, push ONE result; t.pe), call on a
   non-function, and the modifiers whose own template pushes a fixed number of results *)
ResultCountKnown(t) ==
    \/ t.m = 0 /\ (t.pe \/ t.key = CallKey)
    \/ t.m \in {m_v, m_fhook, m_dtail, m_para, m_paral, m_tilde}
    \/ t.m = m_sz /\ ~t.condtrue
ExpectedLen(t) ==
    CASE t.m = 0 /\ t.key = CallKey -> Len(t.ids0)
      [] t.m = 0 -> Len(t.ids0) - t.ta + 1
      [] t.m = m_v -> Len(t.ids0) - t.ta + 1
      [] t.m \in {m_fhook, m_dtail} -> Len(t.ids0)
      [] t.m = m_tilde -> IF t.ta >= 2 THEN Len(t.ids0) + 1 ELSE Len(t.ids0)     \* arguments kept + result / filter / no-op
      [] t.m = m_sz -> Len(t.ids0) - 1
      [] t.m = m_para -> Len(t.ids0) - t.tb + 2
      [] OTHER -> Len(t.ids0) - t.tb + 1
Prop_C09_Results(t) == ResultCountKnown(t) => Len(t.ids1) = ExpectedLen(t)

TwinShapeOK(t) ==
    LET keep == Len(t.ids0) - Touched(t)
    IN /\ Len(t.twin) = Len(t.full1)
       /\ (keep <= 0 \/ (Len(t.twin) >= keep /\ SubSeq(t.twin, 1, keep) = SubSeq(t.full1, 1, keep)))

Verdict(t) ==
    IF t.key \in WholeStackKeys \/ (t.m = 0 /\ t.key = VyxalExec /\ t.strarg) \/ (t.m # 0 /\ t.opkey \in WholeStackKeys \cup {WrapTopN})
    THEN "skip:whole-stack-operation"
    ELSE IF t.raised # "" THEN "skip:inapplicable-" \o t.raised
    ELSE IF ~Prop_C09(t) THEN "violation:entries-below-changed"
    ELSE IF ~Prop_C09_Results(t) THEN "violation:number-of-results"
    \* the same construct with its list arguments given the other way (eager <-> lazy) has the same STACK EFFECT:
    \* as many entries left, the same entries below the touched ones (what the results are is not this property)
    ELSE IF "twinok" \in DOMAIN t /\ t.twinok /\ ~TwinShapeOK(t) THEN "violation:stack-effect-differs-for-lazy-arguments"
    ELSE "ok"

Init == tid \in 1..Len(Batch) /\ phase = "start"
Decide == /\ phase = "start" /\ phase' = "done" /\ tid' = tid
          /\ PrintT(<<"V", tid, Verdict(T)>>)
Next == Decide
====
