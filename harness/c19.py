"""C19 Online mode contains the program.

Spec:  MC_Online (routing of prints, evaluation of user text, error reporting
       in both modes) and VyMachine (what the program prints).
Bind:  execute_vyxal(..., online_mode=True) in-process with fd-level capture
       of the host's stdout, a canary that user-supplied Python expressions
       would trigger if they were ever executed, and the two output records;
       Trace_Machine's verdict X decides Prop_C19 on those observations and,
       where the run stays inside the machine's domain, compares the output
       record with the machine's printed text.  Positive control: the same
       tainted programs offline DO trigger the canary.
"""
from __future__ import annotations

import time

from . import common, gen, machine, tlc

PID = "C19"
TAINTS = [
    "__import__('builtins').VY_CANARY.append(1)",
    "[__import__('builtins').VY_CANARY.append(2)]",
    "(lambda: __import__('builtins').VY_CANARY.append(3))()",
    "f\"{__import__('builtins').VY_CANARY.append(4)}\"",
    "VY_CANARY.append(5) or 1",
    "print(__import__('builtins').VY_CANARY.append(6))",
    "''.__class__.__mro__[1].__subclasses__() and VY_CANARY.append(7)",
    "1 if VY_CANARY.append(8) else 2",
    "[1, VY_CANARY.append(9)]",
    "{'a': VY_CANARY.append(10)}",
    "1/3+VY_CANARY.append(11)", "2/7 or VY_CANARY.append(12)", "-5/2*[VY_CANARY.append(13)]", "1+VY_CANARY.append(14)",
    "0x10 if VY_CANARY.append(15) else 1", "3.5 and VY_CANARY.append(16)", "1e3+len([VY_CANARY.append(17)])",
    "7 /2+print(VY_CANARY.append(18))", "(VY_CANARY.append(19),)", "'a'+str(VY_CANARY.append(20))",
    "1/3+__import__('builtins').VY_CANARY.append(21)", "1/3+print('X')", "2/7*print('host')", "1/2+__import__('os').getpid()",
    "5/7-len(__import__('builtins').VY_CANARY.append(22) or [])", "1/3 + exec('import builtins; builtins.VY_CANARY.append(23)')",
]
USES = ["E", "†", "Ė", "E,", "†,", ":E$†", "w E", "wƛE;", "S E", "E E", "J E", "₴", ",", "…E", "vE", "⁽E†", "ßE",
        "λE;†", "@f|E;@f;", "⟨E⟩", "(E)", "[E|†]", "{E|X}", "£¥E", "→a←aE", "⅛¾E", "hE", "tE", "ṘE", "dE", "2*E", "`1`+E", "qE", "q†"]


def cases(tier, rng):
    out = []
    g = gen.MachineGen(rng)
    for _ in range(1200 if tier == "quick" else 30000):
        out.append((g.program(depth=rng.choice([2, 3, 3])), rng.choice(machine.FLAG_SETS), rng.choice(machine.INPUT_SETS), True))
    for t in TAINTS:
        lit = "`" + t.replace("\\", "\\\\").replace("`", "\\`") + "`"
        for u in USES:
            out.append((lit + u, "", [], True))              # tainted literal
            out.append(("?" + u, "", [t], True))             # tainted input, explicit read
            out.append((u, "", [t], True))                   # tainted input, implicit read
            out.append(("?" + u, "", [t, "[" + t + "]", "'" + t + "'"], True))
        out.append(("?,?,?,", "", [t, "(" + t + ",)", "{" + t + "}"], True))
    # error reporting: programs that fail in transpile, in exec and after exec (flags)
    for p in ["@f:1;", "@g:x:y;", "(" * 3000, "λ" * 2000, "@f:1;1", "[" * 1500 + "1", "₍ǐ", "v", "≬+",
              "←q", "¼", "λa|1;", "1 0/,←zz", "@f:*|1;@f;", "`abc`∆e", "3(←undefined)", "kn,", "¼¼", "`a`5ḭ←q", "`\\x`"]:
        for fl in ["", "j", "s", "W", "d", "L", "G", "C", "l", "Ṫ"]:
            out.append((p, fl, [], True))
    for p in ["λ1;", "λ1;λ2;", "`abc`", "1 2 3", "⟨`a`|1⟩", "kA", "3ɾ", "⟨⟩", "λx;", "@f|1;", "1£", "ki", "1 0/"]:
        for fl in ["j", "s", "W", "d", "L", "G", "g", "C", "l", "Ṫ", "ṡ", "J", "S", "…", "o", "O", "c"]:
            out.append((p, fl, [], True))
    # inputs shaped to break out of each quoting layer they may pass through (a Vyxal string literal handed to
    # Vyxal-exec, the Python literal the transpiler writes for it, input parsing)
    can = "__import__('builtins').VY_CANARY.append(40)"
    for t in ['`\\");' + can + '#`', '`");' + can + '#`', "`');" + can + "#`", '`\\\\");' + can + '#`', '`\n");' + can + '#`',
              '"\\");' + can + '#', "';" + can + "#", '\\");' + can + '#', '`\\`);' + can + '#`', '‛\\"' + ");" + can + "#",
              '`a`+`\\");' + can + '#`', '«\\");' + can + '#«', '`{' + can + '}`', '`%s`%' + can, '`\\x22);' + can + '#`']:
        for prog in ("Ė", "?Ė", "E", "†", "ĖĖ", "?:ĖĖ", "wvĖ", "λĖ;†", "?S Ė", "Ė,"):
            out.append((prog, "", [t], True))
            out.append((prog, "D", [t], True))
    # tainted text as a function NAME (defined with the name written as a string, called by its cleaned name),
    # in the program and handed to Vyxal-exec as input
    import re
    for t in TAINTS[:8] + ["f if 0 else 0;" + TAINTS[0], "x=" + TAINTS[0] + "#", "a\n" + TAINTS[0]]:
        clean = re.sub("[^A-Za-z0-9_]", "", t)
        for prog in ("@`" + t + "`|7;@" + clean + ";", "@`" + t + "`:1|7;3@" + clean + ";", "λ@`" + t + "`|7;@" + clean + ";;†"):
            out.append((prog, "", [], True))
            out.append(("Ė", "", ["`" + prog.replace("`", "\\`") + "`"], True))
    # inputs that are valid Python literals but no Vyxal values, and malformed ones: kept as strings, never an error
    odd = ["None", "...", "1e999", "-1e999", "b'x'", "1j", "True", "(1, 2)", "{1: 2}", "{1, 2}", "[None, 'x']", "[1, None]",
           "{'a': None}", "[[...]]", "1_000", "0x10", "0o7", "''", "[", "]", "\\", "'", "\"", "1e", "--1", "[1,", "nan", "inf",
           "[1e999]", "{None: [1e999]}", "-", "+", ".", "1.", "١٢", "²"]
    for t in odd:
        for prog in ("1 2+,", "?,", ",", "+", "?L,", "W", "?:E_", "?Ė"):
            out.append((prog, "", [t], True))
        out.append(("?,?,", "", ["1", t], True))
    # runs that fail by construction, eagerly and inside lazily evaluated values reached by each way of printing
    fail = ["λx;†", "←q", "¼", "3ɾλx;M", "3ɾλx;M,", "3ɾƛ←q;", "3ɾƛ←q;,", "3ɾƛ¼;", "3ɾ'←q;", "3ɾλx;ML,", "`abc`λx;M₴", "3ɾƛ←q;…",
            "3ɾƛ¼;₴", "3ɾλx;M…", "3ɾƛ←q;w", "⟨3ɾλx;M⟩", "3ɾλx;M:", "1 3ɾλx;M\""]
    for p in fail:
        for fl in ["", "j", "s", "W", "S", "L"]:
            out.append((p, fl, [], True, {"mustfail": True, "budget": 10 ** 6, "reclimit": 1200}))
    return out


def main(tier):
    t0 = time.time()
    rng = common.rng(19)
    V = common.Verdicts(PID)
    with common.Scratch(PID) as s:
        mc = tlc.model_check(s, "MC_Online", cfg="MC_Online", workers=8)
        if not mc["ok"]:
            V.add("spec:MC_Online:" + str(mc["violated"]), {"trace": tlc.counterexample(mc["out"])})
        cs = cases(tier, rng)
        # positive control of the detector: offline, evaluating a tainted literal must trigger the canary
        ctl = machine.observe(("`" + TAINTS[0] + "`E", "", [], False))
        if ctl["ev"][-1]["canary"] == 0:
            raise RuntimeError("canary detector does not fire offline: the oracle is broken")
        obs, v, w, st = machine.validate(s, cs)
    x = st["extra"].get("X", [None] * len(cs))
    tally = {}
    evaluated = 0
    for (p, fl, inp, *_), xv, vv, o in zip(cs, x, v, obs):
        xv = xv or "skip"
        tally[xv] = tally.get(xv, 0) + 1
        if xv.startswith("violation"):
            fin = o["ev"][-1]
            V.add(f"{xv.split(':', 1)[1]}:{p!r}:flags={fl}:inputs={inp!r}",
                  {"program": p, "flags": fl, "inputs": inp, "verdict": xv, "host_bytes": fin["host"], "canary": fin["canary"],
                   "raised": fin["raised"], "record1": common.uncps(fin["out"])[:200], "c01_verdict": vv})
        if xv != "skip":
            evaluated += 1
    rc = V.finish()
    in_domain = sum(1 for vv in v if vv == "ok")
    common.write_evidence(
        PID, tier, t0,
        {
            "states": mc["distinct"], "transitions": mc["generated"], "traces_validated_against_impl": evaluated,
            "samples": [{"program": p, "flags": fl, "inputs": inp, "verdict": xv}
                        for (p, fl, inp, *_), xv in list(zip(cs, x))[:: max(1, len(cs) // 14)][:14]],
            "evaluations": len(cs), "distinct_nontrivial": len({(p, fl, repr(inp)) for (p, fl, inp, *_), xv in zip(cs, x) if xv and xv != "skip"}),
            "rule": "structured random programs of the C01 core (every printing element) run online; 10 tainted Python "
                    f"expressions x {len(USES)} uses (evaluate, call, Vyxal-exec, inside every structure, via variables/register/"
                    "global array) as literal, as explicit input, as implicit input, as list/str inputs; failing programs x "
                    "output flags; non-trivial = distinct (program, flags, inputs) decided",
            "verdicts": tally, "output_record_compared_with_machine": in_domain,
            "positive_control": "offline run of a tainted literal + E triggered the canary",
            "mc": {"module": "MC_Online", "distinct": mc["distinct"],
                   "invariants": ["NoHostOutput", "NoUserPython", "ErrorsRecorded"]},
            "trace_tlc": {k: st[k] for k in st if k != "extra"}, "exhaustive": False,
        },
        ["host output is captured at fd level for the whole run", "a tainted text that is executed as Python appends to "
         "builtins.VY_CANARY; text that stays data cannot", "elements that hand strings to sympy's parser are outside the claim"],
        len(V.violations),
    )
    print(f"C19 {tier}: {len(cs)} runs, verdicts {tally}, MC {mc['distinct']} states, {time.time() - t0:.1f}s")
    return rc
