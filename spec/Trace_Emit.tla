---- MODULE Trace_Emit ----
(***************************************************************************)
(* C02: transpile(p) of the implementation, observed as                    *)
(*   err      "" or the exception transpile raised                         *)
(*   compiled whether compile(code, "exec") accepted the result            *)
(*   lines    the line structure of the returned code (harness projector)  *)
(* Prop_C02 (observed fields only): no exception and the code compiles.    *)
(* Domain: the reference lexer/parser find the program well-formed.        *)
(* Conformance: lines = ProgramLines(Parse(Lex(text))) (VyEmit), and       *)
(* VyEmit's own lowering is Valid.                                         *)
(***************************************************************************)
EXTENDS VyEmit, Json, IOUtils, TLC, TLCExt

BatchFile == JsonDeserialize(IOEnv.TRACE_FILE)
ASSUME TLCSet(7, BatchFile)
Batch == TLCGet(7)

VARIABLES tid, phase
T == Batch[tid]

ObsLines(t) == [j \in 1..Len(t.lines) |-> Ln(t.lines[j].ind, t.lines[j].k)]

Prop_C02(t) == t.err = "" /\ t.compiled

Verdict(t) ==
    LET toks == Lex(t.text)
        tree == Parse(toks, "none")
    IN IF ~WellFormedToks(toks) THEN "skip:not-wellformed"
       ELSE IF t.err # "" THEN "violation:transpile-raised-" \o t.err
       ELSE IF ~t.compiled THEN "violation:does-not-compile"
       ELSE IF ~Valid(ProgramLines(tree)) THEN "specviolation:lowering-invalid"
       ELSE IF t.cmp /\ ObsLines(t) # ProgramLines(tree) THEN "drift:line-structure"
       ELSE "ok"

Init == tid \in 1..Len(Batch) /\ phase = "start"
Decide == /\ phase = "start" /\ phase' = "done" /\ tid' = tid
          /\ PrintT(<<"V", tid, Verdict(T)>>)
Next == Decide
====
