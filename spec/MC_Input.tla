---- MODULE MC_Input ----
(***************************************************************************)
(* C11 at design level: for every input list and every read history the    *)
(* values handed out at top level are the inputs in cyclic order (0 when   *)
(* there are none), implicit reads inside a call cycle over that call's    *)
(* arguments, explicit reads inside a call still take the program's        *)
(* inputs.  The environment chooses the input list and then any action.    *)
(***************************************************************************)
EXTENDS VyInput, TLC

CONSTANTS MaxInputs, MaxDepth, MaxHist

InputLists == UNION {[1..n -> 1..3] : n \in 0..MaxInputs}
ArgLists == {<<>>, <<7>>, <<7, 8>>, <<7, 8, 9>>}

VARIABLES inputs, s, n
vars == <<inputs, s, n>>

Init == /\ inputs \in InputLists /\ s = InitInput(inputs) /\ n = 0

Bound == n < MaxHist
ExplicitRead == Bound /\ s' = DoExplicit(s) /\ n' = n + 1 /\ UNCHANGED inputs
ImplicitPop(k) == Bound /\ s' = Times(DoImplicit, k, s) /\ n' = n + 1 /\ UNCHANGED inputs
EnterLambda(args) == Bound /\ Len(s.scopes) <= MaxDepth /\ s' = DoEnter(s, args) /\ n' = n + 1 /\ UNCHANGED inputs
Leave == Bound /\ Len(s.scopes) > 1 /\ s' = DoLeave(s) /\ n' = n + 1 /\ UNCHANGED inputs

Next == ExplicitRead \/ (\E k \in 1..3 : ImplicitPop(k)) \/ (\E a \in ArgLists : EnterLambda(a)) \/ Leave
Spec == Init /\ [][Next]_vars

StreamIsCyclic == CyclicStream(inputs, s)
CursorIsCount == CursorCounts(s)
(* inside a call, implicit reads deliver that call's arguments (or 0), never the program's inputs *)
InnerReadsAreArguments ==
    \A i \in 1..Len(s.delivered) :
        (s.delivered[i].kind = "implicit" /\ s.delivered[i].depth > 1) => s.delivered[i].v \in {0, 7, 8, 9}
ScopesOnlyGrowByOne == [][Len(s'.scopes) - Len(s.scopes) \in {-1, 0, 1}]_vars
DeliveredAppendOnly == [][Len(s'.delivered) >= Len(s.delivered)
                          /\ SubSeq(s'.delivered, 1, Len(s.delivered)) = s.delivered]_vars
====
