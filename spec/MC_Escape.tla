---- MODULE MC_Escape ----
(***************************************************************************)
(* C18 at design level.  The environment feeds any payload character by    *)
(* character (adversarial alphabet) into                                   *)
(*   - the string slot: token value -> escaper -> Python literal scanner   *)
(*   - an identifier slot with the character class Keep as written in the  *)
(*     code (CONSTANTS KeepParam = parameter names, KeepName = other names)*)
(***************************************************************************)
EXTENDS VyEscape, VyEscapeData, TLC

CONSTANTS Alphabet, MaxLen, KeepParam, KeepName

VARIABLES payload, pending, scan
vars == <<payload, pending, scan>>

Init == payload = <<>> /\ pending = FALSE /\ scan = "in"

Feed(c) == /\ Len(payload) < MaxLen
           /\ payload' = Append(payload, c)
           /\ scan' = ScanAll(scan, EmitFor(pending, c))
           /\ pending' = PendingAfter(pending, c)
Next == \E c \in Alphabet : Feed(c)
Spec == Init /\ [][Next]_vars

(* the step machine agrees with the whole-string operators *)
StepAgrees == scan = ScanAll("in", EscapeAll(FALSE, payload) ) \/ pending
(* no program text leaves the literal: never closed (or broken by a raw newline) while feeding *)
NeverClosedEarly == scan \in {"in", "esc"}
(* after the transpiler's own closing quote the literal is closed *)
AtEnd == ScanAll("in", EscapeAll(FALSE, payload) \o <<c_dquote>>) = "closed"
(* identifiers: whatever survives the sanitiser is an identifier tail *)
ParamIdentOK == IsIdentTail(Sanitise(payload, KeepParam))
NameIdentOK == IsIdentTail(Sanitise(payload, KeepName))
====
