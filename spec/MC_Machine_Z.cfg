SPECIFICATION Spec
CONSTANT AlphaSel = "Z"
CONSTANT StepBound = 160
CONSTANT MaxToks = 5
INVARIANT StatusOK
INVARIANT BalancedAtEnd
INVARIANT TopLevelBalanced
INVARIANT ActivationsMatch
INVARIANT ScopesMatch
INVARIANT HeapOK
PROPERTY FrameRule
PROPERTY ProducedOnce
PROPERTY StepsGrow
CHECK_DEADLOCK FALSE
