"""Projection of implementation objects onto the specification's data
representation (JSON that TLC's Json module turns into TLA+ values).

text        -> list of code points
Token       -> {"k": kind, "v": text}
Structure   -> record tagged by "t" (see spec/VyParser.tla)
"""
from __future__ import annotations

from .common import cps

_PARENT = None


def parent_code(cls):
    global _PARENT
    if _PARENT is None:
        from vyxal import structure as S

        _PARENT = {
            None: "none",
            S.IfStatement: "if",
            S.ForLoop: "for",
            S.WhileLoop: "while",
            S.FunctionCall: "fncall",
            S.FunctionDef: "fndef",
            S.Lambda: "lam",
            S.LambdaMap: "lmap",
            S.LambdaFilter: "lfilter",
            S.LambdaSort: "lsort",
            S.ListLiteral: "list",
            S.MonadicModifier: "mon",
            S.DyadicModifier: "dy",
            S.TriadicModifier: "tri",
        }
    return _PARENT.get(cls, "other:" + getattr(cls, "__name__", repr(cls)))


def tok(t):
    return {"k": t.name.value, "v": cps(t.value)}


def toks(ts):
    return [tok(t) for t in ts]


def node(n):
    from vyxal import structure as S
    from vyxal.lexer import Token

    if isinstance(n, Token):
        return {"t": "tok", "tok": tok(n)}
    if isinstance(n, S.GenericStatement):
        return {"t": "gen", "tok": tok(n.branches[0][0])}
    if isinstance(n, S.BreakStatement):
        return {"t": "break", "parent": parent_code(n.parent_structure)}
    if isinstance(n, S.RecurseStatement):
        return {"t": "recurse", "parent": parent_code(n.parent_structure)}
    if isinstance(n, S.IfStatement):
        return {"t": "if", "br": [nodes(b) for b in n.branches]}
    if isinstance(n, S.ListLiteral):
        return {"t": "list", "br": [nodes(b) for b in n.items]}
    if isinstance(n, S.ForLoop):
        return {"t": "for", "names": [cps(x) for x in n.names], "body": nodes(n.body)}
    if isinstance(n, S.WhileLoop):
        return {"t": "while", "cond": nodes(n.condition), "body": nodes(n.body)}
    if isinstance(n, S.FunctionCall):
        return {"t": "fncall", "name": cps(n.name)}
    if isinstance(n, S.FunctionDef):
        return {
            "t": "fndef",
            "name": cps(n.name),
            "params": [cps(p) for p in n.parameters],
            "body": nodes(n.body),
        }
    if isinstance(n, S.LambdaOp):
        t = {"M": "lmap", "F": "lfilter", "ṡ": "lsort"}.get(n.after, "lop:" + n.after)
        return {"t": t, "body": nodes(n.lam.body)}
    if isinstance(n, S.Lambda):
        ar = n.arity
        return {"t": "lam", "arity": -1 if ar == "default" else int(ar), "body": nodes(n.body)}
    if isinstance(n, S.MonadicModifier):
        return {"t": "mon", "m": ord(n.modifier), "ops": [node(b) for b in n.branches]}
    if isinstance(n, S.DyadicModifier):
        return {"t": "dy", "m": ord(n.modifier), "ops": [node(b) for b in n.branches]}
    if isinstance(n, S.TriadicModifier):
        return {"t": "tri", "m": ord(n.modifier), "ops": [node(b) for b in n.branches]}
    return {"t": "unknown:" + type(n).__name__}


def nodes(ns):
    return [node(n) for n in ns]


def parse_text(text, vflag=False):
    """real tokenise+parse; returns (tokens_json, tree_json, error); vflag: variables_as_digraphs (flag V)"""
    from vyxal.lexer import tokenise
    from vyxal.parse import parse

    try:
        ts = tokenise(text, True) if vflag else tokenise(text)
    except Exception as e:  # noqa: BLE001
        return None, None, "lex:" + type(e).__name__
    try:
        tree = parse(ts)
    except RecursionError:
        return toks(ts), None, "parse:RecursionError"
    except Exception as e:  # noqa: BLE001
        return toks(ts), None, "parse:" + type(e).__name__
    return toks(ts), nodes(tree), None
