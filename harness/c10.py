"""C10 Values are immutable: no element changes a value another reference can see.

Spec:  MC_Heap (cells, lazy-view copies as in helpers.deep_copy, in-place vs
       copying writers; Immutable holds iff no element writes in place).
Bind:  (i) every element of the table on arguments built from known plain
       values (eager and lazy): afterwards the caller's own references are
       forced and compared with the construction value; (ii) programs
       <value> <copy-op> <element sequence <= 3>: the untouched copy (stack,
       variable, register, global array) must still denote the original.
       TLC (Trace_Heap) evaluates the comparison.
"""
from __future__ import annotations

import time

from . import c08, common, extract, runner, tlc

PID = "C10"
SKIP_KEYS = {"Q"}


def plain_values(rng):
    k = rng.random()
    if k < 0.12:
        return rng.choice([[[1, 2], [3, 4], [5, 6]], [[1, 2], [3]], [[1, 2, 3], [4, 5, 6]], [[2, 0], [0, 2]], [[1], [2], [3]]])
    if k < 0.25:
        return [rng.randint(0, 5) for _ in range(rng.randint(1, 5))]
    if k < 0.4:
        return [[1, 2], [3, [4, 5]], 6][: rng.randint(1, 3)]
    if k < 0.5:
        return ["ab", "c", [1, "d"]]
    if k < 0.65:
        return rng.choice(["abc", "hello world", "x"])
    if k < 0.85:
        return rng.choice([0, 1, 2, 3, 5, 10])
    return [rng.randint(-3, 3) for _ in range(rng.randint(2, 6))]


def build(plain, lazy):
    from vyxal.LazyList import LazyList

    if isinstance(plain, list):
        items = [build(x, lazy and i % 2 == 0) for i, x in enumerate(plain)]
        return LazyList(iter(items)) if lazy else items
    return plain


def observe_elem(case):
    _, key, seed = case
    import random

    import vyxal.elements as E

    rng = random.Random(seed)
    k = E.elements[key][1]
    k = k if isinstance(k, int) and k > 0 else 1
    plains = [plain_values(rng) for _ in range(k)]
    lazy = rng.random() < 0.4
    args = [build(p, lazy) for p in plains]
    if rng.random() < 0.3 and k >= 2:          # the same object passed twice
        args[1] = args[0]
        plains[1] = plains[0]
    stack = list(args)
    ev = {"raised": "", "refs": []}
    try:
        ns = runner.fresh_ns(stack=stack)
        with runner.CaptureStdout():
            common.with_alarm(lambda _: exec(E.elements[key][0], ns), None, 5)
            # force the results too: a lazy result may write into its argument while it is consumed
            for r in ns["stack"][-3:]:
                try:
                    c08.tagged(r)
                except BaseException:  # noqa: BLE001
                    pass
            for i, (a, p) in enumerate(zip(args, plains)):
                ev["refs"].append({"name": f"arg{i}", "built": c08.tagged(p), "after": c08.tagged(a)})
    except common.CaseTimeout:
        ev["raised"] = "hang"
    except SystemExit:
        ev["raised"] = "SystemExit"
    except BaseException as e:  # noqa: BLE001
        ev["raised"] = type(e).__name__
    return ev


GARR_READ = "garr-read"      # {V}⅛¾ : the value pushed by ¾ must stay ⟨V⟩ whatever happens to the global array later

COPY_OPS = {
    "garr-read": ("{V}⅛¾{E}", "garr-read"),
    ":": ("{V}:{E}", "stack"), "D": ("{V}D{E}", "stack"), "Ḃ": ("{V}Ḃ{E}", "stack-bifurcate"),
    "var": ("{V}→a ←a ←a {E}", "var"), "reg": ("{V}:£{E}", "reg"), "garr": ("{V}:⅛{E}", "garr"),
}
MUTATORS = ["2⅛", "¼_", "3⅛4⅛", "ÞḊ", "ÞḊ_", "∩", "ÞṪ", "Þ/", "ÞD", "Þ\\", "ÞṀ", "Þ•", "ÞM", "Þm", "G", "g", "ÞC", "ṁ", "∆M",
            "0 9Ȧ", "1 7Ȧ", "λ+;Ḟ3Ẏ", "›", "Ṙ", "s", "U", "f", "1 2Ȧ_", "J", "0 5Ȧ0 6Ȧ", "ḣ", "ṫ", "Ṫ", "Ḣ", "h", "t", "¦", "ė", "z",
            "3ẋ", "2ẇ", "∑", "vd", "ƛd;", "⁽›M", "0 1Ȧ", "2 0Ȧ", "λ*;Ḟ2Ẏ_", "Ṗ", "ṗ", "y", "p", "9p", "w", "1ȯ", "2Ẏ", "Ż", "ǔ", "Ǔ"]
VALUES = [("⟨⟨1|2⟩|⟨3|4⟩|⟨5|6⟩⟩", [[1, 2], [3, 4], [5, 6]]), ("⟨⟨1|2|3⟩|⟨4|5|6⟩⟩", [[1, 2, 3], [4, 5, 6]]),
          ("⟨1|2|3⟩", [1, 2, 3]), ("3ɾ", [1, 2, 3]), ("⟨⟨1|2⟩|⟨3⟩⟩", [[1, 2], [3]]), ("4ʁ", [0, 1, 2, 3]), ("⟨5|6⟩ƛ›;", [6, 7]),
          ("⟨3|1|2⟩", [3, 1, 2]), ("2ɾ3ɾ\"", [[1, 2], [1, 2, 3]])]


# values that are INFINITE lazy lists: only a prefix can be compared
INF_VALUES = [("Þp", [2, 3, 5, 7, 11, 13, 17, 19, 23, 29, 31, 37, 41, 43, 47, 53]),
              ("ÞF", [1, 1, 2, 3, 5, 8, 13, 21, 34, 55, 89, 144, 233, 377, 610, 987]),
              ("Þ∞", list(range(1, 17))), ("⁽›1Ḟ", list(range(1, 17))), ("Þ!", [1, 1, 2, 6, 24, 120, 720, 5040])]
INF_TAILS = ["20c", "50c", "7c", "5Ẏ", "3ȯ5Ẏ", "h", "5i", "ḣ_", "3ẇ5Ẏ", "8Ẏ∑", "3Ẏ", "10Ẏt", "2ẇh", "100c", "4Ẏ:", "12i_", "›5Ẏ", "d3Ẏ",
             "6ẎṘ", "9Ẏ2ḭ", "0 9Ȧ", "2 0Ȧ", "1 7Ȧ_", "0 9Ȧ5Ẏ", "3 1Ȧh"]


def take(v, n):
    out = []
    it = iter(v)
    for _ in range(n):
        try:
            out.append(next(it))
        except StopIteration:
            break
    return out


def observe_prog(case):
    """phase 1 builds the value and copies it; every reference that exists then (stack entries,
    register, global array) is retained by the harness; phase 2 runs the element sequence on the
    same stack and context; afterwards every retained reference must still denote the original."""
    _, vtext, plain, copyop, seq = case
    tmpl, where = COPY_OPS[copyop]
    head = tmpl.replace("{V}", vtext).replace("{E}", "")
    tail = "".join(seq)
    ev = {"raised": "", "refs": [], "text": head + tail}
    try:
        with runner.CaptureStdout():
            stack, ctx, err = common.with_alarm(lambda _: runner.exec_text(head), None, 6)
            if err:
                ev["raised"] = "setup-" + (err.split(":")[1] if ":" in err else err)
                return ev
            kept = [("stack%d" % i, x) for i, x in enumerate(stack)]
            if where == "reg":
                kept.append(("register", ctx.register))
            if where == "garr" and ctx.global_array:
                kept.append(("global-array-item", ctx.global_array[0]))
            stack2, ctx2, err = common.with_alarm(lambda _: runner.exec_text(tail, ctx=ctx, stack=stack), None, 6)
            if err:
                ev["raised"] = err.split(":")[1] if ":" in err else err
                return ev
            for r in (stack2 or [])[-2:]:       # lazy results may write while they are consumed
                try:
                    c08.tagged(r)
                except BaseException:  # noqa: BLE001
                    pass
            inf = any(vtext == t for t, _ in INF_VALUES)
            want = c08.tagged([plain] if where == "garr-read" else plain)
            for name, obj in kept:
                if copyop == "Ḃ" and name == "stack1":
                    continue        # the second entry of bifurcate is the reversed value, not a copy
                ev["refs"].append({"name": name, "built": want,
                                   "after": c08.tagged(take(obj, len(plain)) if inf else obj)})
    except common.CaseTimeout:
        ev["raised"] = "hang"
    except BaseException as e:  # noqa: BLE001
        ev["raised"] = type(e).__name__
    return ev


def observe(case):
    try:
        return common.with_alarm(lambda _: observe_elem(case) if case[0] == "elem" else observe_prog(case), None, 12)
    except common.CaseTimeout:
        return {"raised": "hang", "refs": []}


def main(tier):
    t0 = time.time()
    rng = common.rng(10)
    V = common.Verdicts(PID)
    common.import_repo()
    elems, _ = extract.element_table()
    keys = [k for k in dict.fromkeys(e["key"] for e in elems) if k not in SKIP_KEYS]
    per = 5 if tier == "quick" else 40
    cs = [("elem", k, rng.randint(0, 10 ** 9)) for k in keys for _ in range(per)]
    nprog = 2000 if tier == "quick" else 40000
    for _ in range(nprog):
        vtext, plain = rng.choice(VALUES)
        cop = rng.choice(list(COPY_OPS))
        seq = [rng.choice(MUTATORS) for _ in range(rng.randint(1, 3))]
        cs.append(("prog", vtext, plain, cop, seq))
    # broad tails: any monad / dyad of the element table applied to the copy (dyads get a literal argument)
    import vyxal.elements as EL
    mon = [k for k in keys if EL.elements[k][1] == 1 and k not in ("Ė", "E", "†", "Q", "¨U", ",", "…", "₴", "¨,", "¨…")]
    dya = [k for k in keys if EL.elements[k][1] == 2 and k not in ("Ḟ",)]
    for _ in range(nprog):
        vtext, plain = rng.choice(VALUES)
        cop = rng.choice(list(COPY_OPS))
        seq = []
        for _ in range(rng.randint(1, 2)):
            seq.append(rng.choice(mon) if rng.random() < 0.6 else rng.choice(["2 ", "0 ", "1 ", "⟨1|2⟩"]) + rng.choice(dya))
        cs.append(("prog", vtext, plain, cop, seq))
    # SYSTEMATIC tails: every monad, every dyad x literal second arguments, every triad x (index-like, value-like)
    # argument pairs, each on an eager and on a lazy value behind a copy
    tri = [k for k in keys if EL.elements[k][1] == 3]
    # (an empty list nested in a literal would pick up the stack top: it is built with range-of-0 and pair instead)
    dargs = ["0 ", "1 ", "2 ", "3 ", "9 ", "⟨1|2⟩", "⟨⟩", "3ɾ", "2ʁ", "⟨2|3⟩›", "0ʁ2\"", "⟨0|⟨1⟩⟩", "`a`", "λ›;"]
    targs = [i + v for i in ["0 ", "1 ", "2 ", "¯1 ".replace("¯", "1N_"), "⟨0|1⟩", "0ʁ2\"", "⟨⟨0⟩|1⟩", "⟨⟩", "1 0ʁ\"", "λ›;"]
             for v in ["9 ", "⟨7⟩", "`z`"]]
    import sympy
    sysvals = [VALUES[0], VALUES[3], VALUES[8], ("⟨10|20|30|40⟩", [10, 20, 30, 40]),
               # a list holding non-integer numbers (a rational, an irrational)
               ("⟨1 3/|5|2√⟩", [sympy.Rational(1, 3), 5, sympy.sqrt(2)])]
    for vi, (vtext, plain) in enumerate(sysvals if tier == "thorough" else sysvals[:2] + sysvals[3:]):
        for cop in ([":", "var", "reg", "garr"] if tier == "thorough" else [":", "var"]):
            if cop != ":" and vi > 1:
                continue
            for k in mon:
                cs.append(("prog", vtext, plain, cop, [k]))
            for k in dya:
                for a in dargs:
                    cs.append(("prog", vtext, plain, cop, [a + k]))
            for k in tri:
                for a in targs:
                    cs.append(("prog", vtext, plain, cop, [a + k]))
    # infinite lazy lists behind a copy: membership tests, slices and indexing on one reference must leave the others'
    # items where they were (a prefix of 8-16 items is compared)
    for vtext, plain in INF_VALUES:
        for cop in (":", "var", "reg"):
            for tl in INF_TAILS:
                cs.append(("prog", vtext, plain, cop, [tl]))
                cs.append(("prog", vtext, plain, cop, [tl, "_", rng.choice(INF_TAILS)]))
    # printing a kept (lazy) value and then running text with Vyxal-exec: what the text pushes goes on the stack,
    # never into the printed value -- also when the stack and the value hold the same items (both empty, or equal)
    for vtext, plain in [("0ɾ", []), ("0ʁ", []), ("⟨⟩›", []), ("3ɾ", [1, 2, 3]), ("⟨5|6⟩›", [6, 7])]:
        for cop in (":", "var", "reg"):
            for tl in (",`9`Ė", "_,`9`Ė", "…`9`Ė", ",`1 2`Ė", "_…`7`Ė_", ",`9`Ė`8`Ė", "_,`9`E"):
                cs.append(("prog", vtext, plain, cop, [tl]))
    for tl in ("1 2 3 ←a,`9`Ė", "←a…`9`Ė"):
        cs.append(("prog", "3ɾ", [1, 2, 3], "var", [tl]))
    # variables: the variable is pushed twice in phase 1, so two references to the SAME object are retained
    for _ in range(nprog // 4):
        vtext, plain = rng.choice(VALUES)
        seq = [rng.choice(MUTATORS) for _ in range(rng.randint(1, 3))]
        cs.append(("prog", vtext, plain, "var", seq))
    with common.Scratch(PID) as s:
        mc = tlc.model_check(s, "MC_Heap", cfg="MC_Heap", workers=8)
        if not mc["ok"]:
            V.add("spec:MC_Heap:" + str(mc["violated"]), {"trace": tlc.counterexample(mc["out"])})
        obs = common.pool_map(observe, cs, initfn=common.import_repo, hard_timeout=20,
                              on_timeout=lambda c: {"raised": "hang", "refs": []})
        verdicts, st = tlc.validate(s, "Trace_Heap", obs, cfg="Trace_Heap.cfg", chunk=3000)
    tally = {}
    judged = set()
    for c, v, o in zip(cs, verdicts, obs):
        key = ":".join(v.split(":")[:2])
        tally[key] = tally.get(key, 0) + 1
        if v == "ok":
            judged.add(c[1] if c[0] == "elem" else o.get("text", ""))
        if v.startswith("violation"):
            if c[0] == "elem":
                V.add(f"element:{c[1]}", {"element": c[1], "seed": c[2], "refs": o["refs"], "verdict": v})
            else:
                muts = sorted({m for m in MUTATORS if m in o.get("text", "") and ("Ȧ" in m or "Ḟ" in m)})
                V.add(f"program:{o.get('text', '')}", {"program": o.get("text", ""), "refs": o["refs"], "verdict": v})
    rc = V.finish()
    common.write_evidence(
        PID, tier, t0,
        {
            "states": mc["distinct"], "transitions": mc["generated"],
            "traces_validated_against_impl": tally.get("ok", 0) + sum(n for k, n in tally.items() if k.startswith("violation")),
            "samples": [{"case": (c[1] if c[0] == "elem" else o.get("text", "")), "verdict": v}
                        for c, v, o in list(zip(cs, verdicts, obs))[:: max(1, len(cs) // 14)][:14]],
            "evaluations": len(cs), "distinct_nontrivial": len(judged),
            "rule": f"every key of the element table x {per} argument tuples built from known plain values (eager or lazy, "
                    "sometimes the same object twice), retained arguments forced afterwards; programs <value> <copy-op in "
                    ": D Ḃ →a←a £ ⅛> <1..3 elements from a list of 40 list transformers/mutators>, the untouched copy compared "
                    "with the original; non-trivial = distinct element / program whose run completed",
            "verdicts": tally, "mc": {"module": "MC_Heap", "distinct": mc["distinct"], "property": "Immutable"},
            "trace_tlc": {k: st[k] for k in st if k != "extra"}, "exhaustive": False,
        },
        ["the value before is known by construction (never observed, so a lazy argument's iterator is not exhausted by the check)",
         "function values are outside the property's quantifier"],
        len(V.violations),
    )
    print(f"C10 {tier}: {len(cs)} runs, verdicts {tally}, {len(judged)} judged, {time.time() - t0:.1f}s")
    return rc
