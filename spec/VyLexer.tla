---- MODULE VyLexer ----
(***************************************************************************)
(* The Vyxal 2 lexer (vyxal/lexer.py tokenise, documents/specs/Lexer.md)   *)
(* as a queue machine: one action per iteration of `while source:`.        *)
(*                                                                         *)
(*   state:   src  -- the characters not yet consumed (a queue)            *)
(*            toks -- the tokens produced so far                           *)
(*                                                                         *)
(* Text is a sequence of Unicode code points.  A token is a record         *)
(* [k |-> kind, v |-> text]; kinds are the values of TokenType.            *)
(*                                                                         *)
(* The same transition is available as the operator LexStep (one           *)
(* iteration) and Lex (run to completion) so that the parser, the machine  *)
(* and the trace specifications can lex text themselves.                   *)
(***************************************************************************)
EXTENDS VyChars, TLC

Tok(k, v) == [k |-> k, v |-> v]

LexKinds == {"string", "number", "character", "general", "compressed_number",
             "compressed_string", "variable_get", "variable_set", "codepage_number"}

---------------------------------------------------------------------------
(* Inner scans, written as the loops they are in the code.                 *)

(* Characters up to (not including) the first unescaped `head`; in a       *)
(* back-quoted string a backslash takes the next character with it (both   *)
(* are kept); a backslash that is the very last character is dropped.      *)
(* Returns <<value, rest>> where rest starts at the closing delimiter.     *)
RECURSIVE ScanString(_, _, _)
ScanString(q, head, acc) ==
    IF q = <<>> \/ Head(q) = head THEN <<acc, q>>
    ELSE IF head = c_btick /\ Head(q) = c_bslash
         THEN IF Len(q) >= 2
              THEN ScanString(SubSeq(q, 3, Len(q)), head, acc \o <<c_bslash, q[2]>>)
              ELSE <<acc, <<>>>>
         ELSE ScanString(Tail(q), head, Append(acc, Head(q)))

Count(s, c) == Cardinality({i \in 1..Len(s) : s[i] = c})

(* number of '.' in the part of s after its last degree sign, and before *)
DotsOK(s) ==
    LET degs == {i \in 1..Len(s) : s[i] = c_deg}
    IN IF degs = {} THEN Count(s, c_dot) < 2
       ELSE LET d == CHOOSE i \in degs : TRUE   \* only evaluated when exactly one
            IN /\ Count(SubSeq(s, 1, d - 1), c_dot) < 2
               /\ Count(SubSeq(s, d + 1, Len(s)), c_dot) < 2

NumberExtends(val, c) ==
    /\ c \in NumChars
    /\ Count(Append(val, c), c_deg) < 2
    /\ DotsOK(Append(val, c))

RECURSIVE ScanNumber(_, _)
ScanNumber(q, acc) ==
    IF q # <<>> /\ NumberExtends(acc, Head(q))
    THEN ScanNumber(Tail(q), Append(acc, Head(q)))
    ELSE <<acc, q>>

RECURSIVE ScanName(_, _)
ScanName(q, acc) ==
    IF q # <<>> /\ Head(q) \in NameChars
    THEN ScanName(Tail(q), Append(acc, Head(q)))
    ELSE <<acc, q>>

RECURSIVE SkipComment(_)
SkipComment(q) ==
    IF q = <<>> THEN <<>>
    ELSE IF Head(q) = c_nl THEN Tail(q) ELSE SkipComment(Tail(q))

---------------------------------------------------------------------------
(* The branches of one loop iteration.  Each takes the state with          *)
(* src # <<>> and returns the next state.                                  *)

St(src, toks) == [src |-> src, toks |-> toks]

BranchOf(h, rest) ==
    CASE h = c_bslash -> "Escape"
      [] h \in StringHeads -> "String"
      [] h \in NumChars -> "Number"
      [] h = c_two_str -> "TwoChar"
      [] h \in {c_set, c_get} -> "Variable"
      [] h = c_hash -> "Comment"
      [] h \in DigraphHeads -> "Digraph"
      [] h = c_sup_plus -> "CodepageNumber"
      [] OTHER -> "General"

DoEscape(s) ==
    LET r == Tail(s.src)
    IN IF r = <<>> THEN St(<<>>, s.toks)
       ELSE St(Tail(r), Append(s.toks, Tok("character", <<Head(r)>>)))

DoString(s) ==
    LET h == Head(s.src)
        sc == ScanString(Tail(s.src), h, <<>>)
        kind == CASE h = c_btick -> "string" [] h = c_raquo -> "compressed_number"
                  [] OTHER -> "compressed_string"
        after == IF sc[2] = <<>> THEN <<>> ELSE Tail(sc[2])
    IN St(after, Append(s.toks, Tok(kind, sc[1])))

DoNumber(s) ==
    LET h == Head(s.src)
        r == Tail(s.src)
    IN IF h = c_zero /\ ~(r # <<>> /\ Head(r) \in {c_deg, c_dot})
       THEN St(r, Append(s.toks, Tok("number", <<h>>)))     \* LeadingZeroStandsAlone
       ELSE LET sc == ScanNumber(r, <<h>>)
            IN St(sc[2], Append(s.toks, Tok("number", sc[1])))

DoTwoChar(s) ==
    LET r == Tail(s.src)
        n == IF Len(r) < 2 THEN Len(r) ELSE 2
    IN St(SubSeq(r, n + 1, Len(r)), Append(s.toks, Tok("string", SubSeq(r, 1, n))))

DoVariable(s) ==
    LET sc == ScanName(Tail(s.src), <<>>)
        kind == IF Head(s.src) = c_set THEN "variable_set" ELSE "variable_get"
    IN St(sc[2], Append(s.toks, Tok(kind, sc[1])))

DoComment(s) == St(SkipComment(Tail(s.src)), s.toks)

DoDigraph(s) ==
    LET h == Head(s.src)
        r == Tail(s.src)
    IN IF r # <<>> /\ Head(r) # c_pipe
       THEN St(Tail(r), Append(s.toks, Tok("general", <<h, Head(r)>>)))
       ELSE St(r, Append(s.toks, Tok("general", <<h>>)))

DoCodepageNumber(s) ==
    LET r == Tail(s.src)
    IN IF r = <<>> THEN St(<<>>, s.toks)
       ELSE St(Tail(r), Append(s.toks, Tok("codepage_number", <<Head(r)>>)))

DoGeneral(s) == St(Tail(s.src), Append(s.toks, Tok("general", <<Head(s.src)>>)))

LexStep(s) ==
    LET b == BranchOf(Head(s.src), Tail(s.src))
    IN CASE b = "Escape" -> DoEscape(s)
         [] b = "String" -> DoString(s)
         [] b = "Number" -> DoNumber(s)
         [] b = "TwoChar" -> DoTwoChar(s)
         [] b = "Variable" -> DoVariable(s)
         [] b = "Comment" -> DoComment(s)
         [] b = "Digraph" -> DoDigraph(s)
         [] b = "CodepageNumber" -> DoCodepageNumber(s)
         [] OTHER -> DoGeneral(s)

RECURSIVE LexRun(_)
LexRun(s) == IF s.src = <<>> THEN s.toks ELSE LexRun(LexStep(s))

Lex(text) == LexRun(St(text, <<>>))

(* flag V (tokenise(..., variables_as_digraphs=True)): a variable name is at most ONE name character *)
DoVariableV(s) ==
    LET r == Tail(s.src)
        one == r # <<>> /\ Head(r) \in NameChars
        kind == IF Head(s.src) = c_set THEN "variable_set" ELSE "variable_get"
    IN St(IF one THEN Tail(r) ELSE r, Append(s.toks, Tok(kind, IF one THEN <<Head(r)>> ELSE <<>>)))
LexStepV(s) == IF BranchOf(Head(s.src), Tail(s.src)) = "Variable" THEN DoVariableV(s) ELSE LexStep(s)
RECURSIVE LexRunV(_)
LexRunV(s) == IF s.src = <<>> THEN s.toks ELSE LexRunV(LexStepV(s))
LexV(text) == LexRunV(St(text, <<>>))

====
