SPECIFICATION Spec
CONSTANTS
  Vals <- ValsDef
  MaxL = 4
INVARIANT SortLaw
INVARIANT ReverseLaw
INVARIANT UniqLaw
INVARIANT CumsumLaw
INVARIANT ZipLaw
INVARIANT PrefixLaw
INVARIANT MergeLaw
INVARIANT SumLaw
INVARIANT CartLaw
CHECK_DEADLOCK FALSE
