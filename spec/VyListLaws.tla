---- MODULE VyListLaws ----
(***************************************************************************)
(* C16: the defining laws of the structural list elements as predicates    *)
(* over (arguments, result).  Values are tagged: [i |-> n] integers,       *)
(* [l |-> <<...>>] lists.  A, B are the flat integer argument lists as     *)
(* integer sequences; out is the tagged (forced) result.                   *)
(***************************************************************************)
EXTENDS Integers, Sequences, FiniteSets

IsInt(v) == "i" \in DOMAIN v
IsLst(v) == "l" \in DOMAIN v
FlatInts(v) == IsLst(v) /\ \A k \in 1..Len(v.l) : IsInt(v.l[k])
Ints(v) == [k \in 1..Len(v.l) |-> v.l[k].i]
Rows(v) == [k \in 1..Len(v.l) |-> Ints(v.l[k])]          \* list of flat lists -> sequence of integer sequences
ListOfFlat(v) == IsLst(v) /\ \A k \in 1..Len(v.l) : FlatInts(v.l[k])

Rev(s) == [k \in 1..Len(s) |-> s[Len(s) - k + 1]]
CountOf(s, x) == Cardinality({k \in 1..Len(s) : s[k] = x})
IsPerm(s, t) == Len(s) = Len(t) /\ \A k \in 1..Len(s) : CountOf(s, s[k]) = CountOf(t, s[k])
IsSorted(s) == \A k \in 1..(Len(s) - 1) : s[k] <= s[k + 1]
RECURSIVE SumTo(_, _)
SumTo(s, k) == IF k = 0 THEN 0 ELSE SumTo(s, k - 1) + s[k]
RECURSIVE ProdTo(_, _)
ProdTo(s, k) == IF k = 0 THEN 1 ELSE ProdTo(s, k - 1) * s[k]
RECURSIVE FirstOcc(_, _)
FirstOcc(s, seen) == IF s = <<>> THEN <<>>
                     ELSE IF Head(s) \in seen THEN FirstOcc(Tail(s), seen)
                     ELSE <<Head(s)>> \o FirstOcc(Tail(s), seen \cup {Head(s)})
RECURSIVE Concat(_)
Concat(ss) == IF ss = <<>> THEN <<>> ELSE Head(ss) \o Concat(Tail(ss))
RECURSIVE Leaves(_)
Leaves(v) == IF IsInt(v) THEN <<v.i>>
             ELSE IF v.l = <<>> THEN <<>> ELSE Leaves(v.l[1]) \o Leaves([l |-> Tail(v.l)])
MaxLen(a, b) == IF Len(a) > Len(b) THEN Len(a) ELSE Len(b)
At0(s, k) == IF k <= Len(s) THEN s[k] ELSE 0
(* t is a subsequence of s *)
RECURSIVE IsSubseq(_, _)
IsSubseq(t, s) == IF t = <<>> THEN TRUE
                  ELSE IF s = <<>> THEN FALSE
                  ELSE IF Head(t) = Head(s) THEN IsSubseq(Tail(t), Tail(s)) \/ IsSubseq(t, Tail(s))
                  ELSE IsSubseq(t, Tail(s))
IsContiguous(t, s) == \E i \in 1..(Len(s) - Len(t) + 1) : SubSeq(s, i, i + Len(t) - 1) = t
RECURSIVE Fact(_)
Fact(n) == IF n <= 1 THEN 1 ELSE n * Fact(n - 1)
Pow2(n) == 2 ^ n
Distinct(s) == \A i, j \in 1..Len(s) : i # j => s[i] # s[j]

(* ROWS: the argument is a list whose items are flat lists (rows); A is then a sequence of integer sequences and
   the laws above that only need equality of items read the same.  x indexes the probe row B (a flat list). *)
RowsOut(out) == ListOfFlat(out) 
(* vectorised arithmetic on values nested at most one level (an integer or a flat list), as folds use it *)
VInt(v) == IsInt(v)
VOp(op, u, v) ==
    LET f(a, b) == IF op = "add" THEN a + b ELSE a * b
    IN IF IsInt(u) /\ IsInt(v) THEN [i |-> f(u.i, v.i)]
       ELSE IF IsLst(u) /\ IsInt(v) THEN [l |-> [k \in 1..Len(u.l) |-> [i |-> f(u.l[k].i, v.i)]]]
       ELSE IF IsInt(u) /\ IsLst(v) THEN [l |-> [k \in 1..Len(v.l) |-> [i |-> f(u.i, v.l[k].i)]]]
       ELSE [l |-> [k \in 1..MaxLen(u.l, v.l) |->
                     [i |-> f(IF k <= Len(u.l) THEN u.l[k].i ELSE 0, IF k <= Len(v.l) THEN v.l[k].i ELSE 0)]]]
RECURSIVE VFold(_, _, _)
VFold(op, acc, rest) == IF rest = <<>> THEN acc ELSE VFold(op, VOp(op, acc, Head(rest)), Tail(rest))

Law(name, A, B, x, out) ==     \* x: a scalar argument where the element takes one
    CASE name = "sort" -> FlatInts(out) /\ IsSorted(Ints(out)) /\ IsPerm(Ints(out), A)
      [] name = "reverse" -> FlatInts(out) /\ Ints(out) = Rev(A)
      [] name = "uniquify" -> FlatInts(out) /\ Ints(out) = FirstOcc(A, {})
      [] name = "flatten" -> FlatInts(out) /\ Ints(out) = A                \* A = leaves of the nested argument
      [] name = "sum" -> IsInt(out) /\ out.i = SumTo(A, Len(A))
      [] name = "product" -> IsInt(out) /\ (A # <<>> => out.i = ProdTo(A, Len(A)))
      [] name = "max" -> A # <<>> => (IsInt(out) /\ (\E k \in 1..Len(A) : A[k] = out.i) /\ \A k \in 1..Len(A) : A[k] <= out.i)
      [] name = "min" -> A # <<>> => (IsInt(out) /\ (\E k \in 1..Len(A) : A[k] = out.i) /\ \A k \in 1..Len(A) : A[k] >= out.i)
      [] name = "cumsum" -> FlatInts(out) /\ Len(out.l) = Len(A) /\ \A k \in 1..Len(A) : out.l[k].i = SumTo(A, k)
      [] name = "deltas" -> FlatInts(out) /\ Len(out.l) = (IF Len(A) = 0 THEN 0 ELSE Len(A) - 1)
                            /\ \A k \in 1..(Len(A) - 1) : out.l[k].i = A[k + 1] - A[k]
      [] name = "zip" -> ListOfFlat(out) /\ Len(out.l) = MaxLen(A, B)
                         /\ \A k \in 1..MaxLen(A, B) : Ints(out.l[k]) = <<At0(A, k), At0(B, k)>>
      [] name = "transpose" ->     \* A = row length, B = number of rows encoded; out vs x handled by the harness law "transpose-rect"
           TRUE
      [] name = "interleave" -> FlatInts(out) /\ IsPerm(Ints(out), A \o B)
                                /\ \A k \in 1..(IF Len(A) < Len(B) THEN Len(A) ELSE Len(B)) :
                                      Ints(out)[2 * k - 1] = A[k] /\ Ints(out)[2 * k] = B[k]
      [] name = "uninterleave" -> ListOfFlat(out) /\ Len(out.l) = 2
                                  /\ Ints(out.l[1]) = [k \in 1..((Len(A) + 1) \div 2) |-> A[2 * k - 1]]
                                  /\ Ints(out.l[2]) = [k \in 1..(Len(A) \div 2) |-> A[2 * k]]
      [] name = "chunks" -> ListOfFlat(out) /\ Concat(Rows(out)) = A
                            /\ \A k \in 1..(Len(out.l) - 1) : Len(out.l[k].l) = x
                            /\ (out.l # <<>> => Len(out.l[Len(out.l)].l) \in 1..x)
      [] name = "prefixes" -> ListOfFlat(out) /\ Len(out.l) = Len(A) /\ \A k \in 1..Len(A) : Ints(out.l[k]) = SubSeq(A, 1, k)
      [] name = "sublists" -> ListOfFlat(out) /\ Len(out.l) = (Len(A) * (Len(A) + 1)) \div 2
                              /\ (\A k \in 1..Len(out.l) : Ints(out.l[k]) # <<>> /\ IsContiguous(Ints(out.l[k]), A))
                              /\ \A i \in 1..Len(A) : \A j \in i..Len(A) : \E k \in 1..Len(out.l) : Ints(out.l[k]) = SubSeq(A, i, j)
      [] name = "powerset" -> ListOfFlat(out) /\ Len(out.l) = Pow2(Len(A))
                              /\ (\A k \in 1..Len(out.l) : IsSubseq(Ints(out.l[k]), A))
                              /\ (Distinct(A) => Distinct(Rows(out)))
      [] name = "permutations" -> ListOfFlat(out) /\ Len(out.l) = Fact(Len(A))
                                  /\ (\A k \in 1..Len(out.l) : IsPerm(Ints(out.l[k]), A))
                                  /\ (Distinct(A) => Distinct(Rows(out)))
      [] name = "cartesian" ->        \* exactly the pairs of the product, in any order (the implementation enumerates diagonals)
           ListOfFlat(out) /\ Len(out.l) = Len(A) * Len(B)
           /\ (\A k \in 1..Len(out.l) : Len(out.l[k].l) = 2)
           /\ \A i \in 1..Len(A) : \A j \in 1..Len(B) :
                  CountOf(Rows(out), <<A[i], B[j]>>) = CountOf(A, A[i]) * CountOf(B, B[j])
      [] name = "count" -> IsInt(out) /\ out.i = CountOf(A, x)
      [] name = "contains" -> IsInt(out) /\ (out.i # 0) = (CountOf(A, x) > 0)
      [] name = "group" -> ListOfFlat(out) /\ Concat(Rows(out)) = A
                           /\ (\A k \in 1..Len(out.l) : Ints(out.l[k]) # <<>> /\ \A m \in 1..Len(out.l[k].l) : out.l[k].l[m] = out.l[k].l[1])
                           /\ \A k \in 1..(Len(out.l) - 1) : out.l[k].l[1] # out.l[k + 1].l[1]
      [] name = "gradeup" -> FlatInts(out) /\ IsPerm(Ints(out), [k \in 1..Len(A) |-> k - 1])
                             /\ \A k \in 1..(Len(A) - 1) : A[Ints(out)[k] + 1] <= A[Ints(out)[k + 1] + 1]
      [] name = "gradedown" -> FlatInts(out) /\ IsPerm(Ints(out), [k \in 1..Len(A) |-> k - 1])
                               /\ \A k \in 1..(Len(A) - 1) : A[Ints(out)[k] + 1] >= A[Ints(out)[k + 1] + 1]
      [] name = "counts" -> ListOfFlat(out) /\ Len(out.l) = Len(FirstOcc(A, {}))
                            /\ \A k \in 1..Len(out.l) : Ints(out.l[k]) = <<FirstOcc(A, {})[k], CountOf(A, FirstOcc(A, {})[k])>>
      [] name = "length" -> IsInt(out) /\ out.i = Len(A)
      [] name = "head" -> IsInt(out) /\ out.i = (IF A = <<>> THEN 0 ELSE A[1])
      [] name = "tail" -> IsInt(out) /\ out.i = (IF A = <<>> THEN 0 ELSE A[Len(A)])
      [] name = "behead" -> FlatInts(out) /\ Ints(out) = (IF A = <<>> THEN <<>> ELSE Tail(A))
      [] name = "curtail" -> FlatInts(out) /\ Ints(out) = (IF A = <<>> THEN <<>> ELSE SubSeq(A, 1, Len(A) - 1))
      [] name = "merge" -> FlatInts(out) /\ Ints(out) = A \o B
      [] name = "any" -> IsInt(out) /\ (out.i # 0) = (\E k \in 1..Len(A) : A[k] # 0)
      [] name = "all" -> IsInt(out) /\ (out.i # 0) = (\A k \in 1..Len(A) : A[k] # 0)
      [] name = "enumerate" -> ListOfFlat(out) /\ Len(out.l) = Len(A) /\ \A k \in 1..Len(A) : Ints(out.l[k]) = <<k - 1, A[k]>>
      [] name = "allequal" -> IsInt(out) /\ (out.i # 0) = (\A i, j \in 1..Len(A) : A[i] = A[j])
      [] name = "involution" -> FlatInts(out) /\ Ints(out) = A             \* reverse(reverse(A))
      [] name = "wrap1" -> ListOfFlat(out) /\ Len(out.l) = 1 /\ Ints(out.l[1]) = A
      \* lists of ROWS (A: sequence of integer sequences, B: a probe row)
      [] name = "rows-uniquify" -> ListOfFlat(out) /\ Rows(out) = FirstOcc(A, {})
      [] name = "rows-count" -> IsInt(out) /\ out.i = CountOf(A, B)
      [] name = "rows-contains" -> IsInt(out) /\ (out.i # 0) = (CountOf(A, B) > 0)
      [] name = "rows-allequal" -> IsInt(out) /\ (out.i # 0) = (\A i, j \in 1..Len(A) : A[i] = A[j])
      [] name = "rows-counts" -> IsLst(out) /\ Len(out.l) = Len(FirstOcc(A, {}))
                                 /\ \A k \in 1..Len(out.l) :
                                        /\ IsLst(out.l[k]) /\ Len(out.l[k].l) = 2 /\ FlatInts(out.l[k].l[1]) /\ IsInt(out.l[k].l[2])
                                        /\ Ints(out.l[k].l[1]) = FirstOcc(A, {})[k]
                                        /\ out.l[k].l[2].i = CountOf(A, FirstOcc(A, {})[k])
      [] name = "rows-group" -> IsLst(out) /\ (\A k \in 1..Len(out.l) : ListOfFlat(out.l[k]) /\ out.l[k].l # <<>>)
                                /\ Concat([k \in 1..Len(out.l) |-> Rows(out.l[k])]) = A
                                /\ (\A k \in 1..Len(out.l) : \A m \in 1..Len(out.l[k].l) : out.l[k].l[m] = out.l[k].l[1])
                                /\ \A k \in 1..(Len(out.l) - 1) : out.l[k].l[1] # out.l[k + 1].l[1]
      \* a list paired with ITSELF after part of it was looked at (A flat): zip, interleave
      [] name = "zip-self" -> ListOfFlat(out) /\ Len(out.l) = Len(A) /\ \A k \in 1..Len(A) : Ints(out.l[k]) = <<A[k], A[k]>>
      \* folds over items nested at most one level (x: the nested argument itself, tagged)
      [] name = "sum-nested" -> x.l = <<>> \/ out = VFold("add", x.l[1], Tail(x.l))
      [] name = "product-nested" -> x.l = <<>> \/ out = VFold("mul", x.l[1], Tail(x.l))
      [] OTHER -> FALSE

LawNames == {"sort", "reverse", "uniquify", "flatten", "sum", "product", "max", "min", "cumsum", "deltas", "zip", "interleave",
             "uninterleave", "chunks", "prefixes", "sublists", "powerset", "permutations", "cartesian", "count", "contains",
             "group", "gradeup", "gradedown", "counts", "length", "head", "tail", "behead", "curtail", "merge", "any", "all",
             "enumerate", "allequal", "involution", "wrap1", "rows-uniquify", "rows-count", "rows-contains", "rows-allequal",
             "rows-counts", "rows-group", "zip-self", "sum-nested", "product-nested"}
====
