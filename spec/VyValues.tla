---- MODULE VyValues ----
(***************************************************************************)
(* Value domain of the machine and the semantics of the closed element     *)
(* core on it.  Values are records distinguished by FIELD NAME:            *)
(*    [i |-> n]      integer, |n| <= IntBound                              *)
(*    [s |-> <<..>>] string: its code points                                *)
(*    [l |-> <<..>>] list (eager and lazy lists are one kind here: the     *)
(*                   specification fixes what a list DENOTES)              *)
(*    [f |-> ...]    function value (lambda or named function)             *)
(*    [u |-> why]    "undefined": the written rules do not cover this      *)
(*                   element/type combination; the machine stops with      *)
(*                   status "undefined" and the case is not evaluated      *)
(***************************************************************************)
EXTENDS VyParser

IntBound == 100000000
VI(n) == [i |-> n]
VL(s) == [l |-> s]
VS(s) == [s |-> s]
VZ(id) == [z |-> id]              \* a lazily produced list: a reference to a cell of the machine's heap
UNDEF(w) == [u |-> w]
IsI(v) == "i" \in DOMAIN v
IsL(v) == "l" \in DOMAIN v
IsS(v) == "s" \in DOMAIN v
IsZ(v) == "z" \in DOMAIN v
IsSc(v) == IsI(v) \/ IsS(v)          \* a scalar
IsF(v) == "f" \in DOMAIN v
IsU(v) == "u" \in DOMAIN v

Abs(n) == IF n < 0 THEN -n ELSE n
MaxN(a, b) == IF a > b THEN a ELSE b
InRange(n) == Abs(n) <= IntBound
MkI(n) == IF InRange(n) THEN VI(n) ELSE UNDEF("int-overflow")

RECURSIVE HasU(_)
HasU(v) == IF IsU(v) THEN TRUE
           ELSE IF IsL(v) THEN \E k \in 1..Len(v.l) : HasU(v.l[k])
           ELSE FALSE

(* the value, or one undefined marker if anything inside is undefined *)
Clean(v) == IF HasU(v) /\ ~IsU(v) THEN UNDEF("inner") ELSE v

---------------------------------------------------------------------------
(* truthiness                                                              *)

(* Python bool(x) of a value as `and`/`or`/`not` see it *)
PyTruthy(v) == IF IsI(v) THEN v.i # 0 ELSE IF IsL(v) THEN Len(v.l) > 0 ELSE IF IsS(v) THEN Len(v.s) > 0 ELSE TRUE

(* `if boolify(x, ctx):` -- a list is truthy iff non-empty (its vectorised
   boolify is a non-empty list), with flag t iff any item is truthy *)
CondTrue(v, tflag) ==
    IF IsI(v) THEN v.i # 0
    ELSE IF IsL(v) THEN (IF tflag THEN \E k \in 1..Len(v.l) : PyTruthy(v.l[k]) ELSE Len(v.l) > 0)
    ELSE IF IsS(v) THEN Len(v.s) > 0
    ELSE TRUE

---------------------------------------------------------------------------
(* printing: vy_str / vy_repr on integers and lists                        *)

RECURSIVE NatStr(_)
NatStr(n) == IF n < 10 THEN <<48 + n>> ELSE NatStr(n \div 10) \o <<48 + (n % 10)>>
IntStr(n) == IF n < 0 THEN <<45>> \o NatStr(-n) ELSE NatStr(n)

ListOpen == <<10216, 32>>      \* "⟨ "
ListClose == <<32, 10217>>     \* " ⟩"
ListSep == <<32, 124, 32>>     \* " | "

(* vy_repr: inside a list a string is shown between back-quotes, its own back-quotes escaped *)
RECURSIVE EscBt(_)
EscBt(s) == IF s = <<>> THEN <<>> ELSE (IF Head(s) = 96 THEN <<92, 96>> ELSE <<Head(s)>>) \o EscBt(Tail(s))
RECURSIVE Repr(_)
RECURSIVE JoinRepr(_)
JoinRepr(vs) ==
    IF vs = <<>> THEN <<>>
    ELSE IF Len(vs) = 1 THEN Repr(vs[1])
    ELSE Repr(vs[1]) \o ListSep \o JoinRepr(Tail(vs))
Repr(v) ==
    IF IsI(v) THEN IntStr(v.i)
    ELSE IF IsS(v) THEN <<96>> \o EscBt(v.s) \o <<96>>
    ELSE IF IsL(v) THEN ListOpen \o JoinRepr(v.l) \o ListClose
    ELSE <<63>>
(* vy_str: a string on its own is its text *)
Str(v) == IF IsS(v) THEN v.s ELSE Repr(v)
ScStr(v) == IF IsI(v) THEN IntStr(v.i) ELSE v.s          \* str() of a scalar

RECURSIVE JoinStr(_, _)
JoinStr(vs, sep) ==
    IF vs = <<>> THEN <<>>
    ELSE IF Len(vs) = 1 THEN Str(vs[1])
    ELSE Str(vs[1]) \o sep \o JoinStr(Tail(vs), sep)

RECURSIVE Printable(_)
Printable(v) == IsI(v) \/ IsS(v) \/ (IsL(v) /\ \A k \in 1..Len(v.l) : Printable(v.l[k]))

RECURSIVE HasS(_)
HasS(v) == IsS(v) \/ (IsL(v) /\ \E k \in 1..Len(v.l) : HasS(v.l[k]))

---------------------------------------------------------------------------
(* vectorisation skeleton (vyxal/elements.py vectorise, vy_zip zero fill)  *)

Item0(v, k) == IF k <= Len(v.l) THEN v.l[k] ELSE VI(0)

DyInt(e, a, b) ==
    CASE e = "add" -> MkI(a + b)
      [] e = "sub" -> MkI(a - b)
      [] e = "mul" -> IF Abs(a) <= 30000 /\ Abs(b) <= 30000 THEN MkI(a * b) ELSE UNDEF("mul-overflow")
      [] e = "eq" -> VI(IF a = b THEN 1 ELSE 0)
      [] e = "lt" -> VI(IF a < b THEN 1 ELSE 0)
      [] e = "gt" -> VI(IF a > b THEN 1 ELSE 0)
      [] e = "le" -> VI(IF a <= b THEN 1 ELSE 0)
      [] e = "ge" -> VI(IF a >= b THEN 1 ELSE 0)
      \* Python %: the result takes the sign of the divisor; a zero divisor is outside the rules
      [] e = "mod" -> IF b > 0 THEN VI(a % b) ELSE IF b < 0 THEN VI(-((-a) % (-b))) ELSE UNDEF("modulo-by-zero")
      \* floor division; a zero divisor gives 0
      [] e = "idiv" -> IF b > 0 THEN VI(a \div b) ELSE IF b < 0 THEN VI((-a) \div (-b)) ELSE VI(0)
      [] OTHER -> UNDEF("dyad")

(* text against text (a number is its decimal text): concatenation and code-point order *)
RECURSIVE SeqLt(_, _)
SeqLt(a, b) == IF b = <<>> THEN FALSE
               ELSE IF a = <<>> THEN TRUE
               ELSE IF Head(a) < Head(b) THEN TRUE
               ELSE IF Head(a) > Head(b) THEN FALSE
               ELSE SeqLt(Tail(a), Tail(b))
B01(p) == VI(IF p THEN 1 ELSE 0)
DyStr(e, a, b) ==
    CASE e = "add" -> VS(a \o b)
      [] e = "eq" -> B01(a = b)
      [] e = "lt" -> B01(SeqLt(a, b))
      [] e = "gt" -> B01(SeqLt(b, a))
      [] e = "le" -> B01(~SeqLt(b, a))
      [] e = "ge" -> B01(~SeqLt(a, b))
      [] OTHER -> UNDEF("dyad-on-strings")

RECURSIVE Dy(_, _, _)
Dy(e, a, b) ==
    IF IsI(a) /\ IsI(b) THEN DyInt(e, a.i, b.i)
    ELSE IF IsSc(a) /\ IsSc(b) THEN DyStr(e, ScStr(a), ScStr(b))
    ELSE IF IsL(a) /\ IsL(b)
         THEN VL([k \in 1..MaxN(Len(a.l), Len(b.l)) |-> Dy(e, Item0(a, k), Item0(b, k))])
    ELSE IF IsL(a) /\ IsSc(b) THEN VL([k \in 1..Len(a.l) |-> Dy(e, a.l[k], b)])
    ELSE IF IsSc(a) /\ IsL(b) THEN VL([k \in 1..Len(b.l) |-> Dy(e, a, b.l[k])])
    ELSE UNDEF("dyad-types")

RECURSIVE RangeSeq(_, _)
RangeSeq(lo, hi) == IF lo > hi THEN <<>> ELSE <<VI(lo)>> \o RangeSeq(lo + 1, hi)

MoInt(e, a) ==
    CASE e = "inc" -> MkI(a + 1)
      [] e = "dec" -> MkI(a - 1)
      [] e = "neg" -> VI(-a)
      [] e = "dbl" -> MkI(2 * a)
      [] e = "r1" -> IF a <= 200 THEN VL(RangeSeq(1, a)) ELSE UNDEF("range-size")
      [] e = "r0" -> IF a <= 200 THEN VL(RangeSeq(0, a - 1)) ELSE UNDEF("range-size")
      [] e = "bool" -> VI(IF a # 0 THEN 1 ELSE 0)
      [] e = "not" -> VI(IF a = 0 THEN 1 ELSE 0)
      [] e = "sq" -> IF Abs(a) <= 30000 THEN VI(a * a) ELSE UNDEF("mul-overflow")
      [] e = "sign" -> VI(IF a > 0 THEN 1 ELSE IF a < 0 THEN -1 ELSE 0)
      [] e = "abs" -> VI(Abs(a))
      [] e = "parity" -> VI(a % 2)
      [] e = "compl" -> MkI(1 - a)
      [] e = "halve" -> IF a % 2 = 0 THEN VI(a \div 2) ELSE UNDEF("rational")
      [] e = "r0i" -> IF a <= 200 THEN VL(RangeSeq(0, a)) ELSE UNDEF("range-size")
      [] e = "r1x" -> IF a <= 200 THEN VL(RangeSeq(1, a - 1)) ELSE UNDEF("range-size")
      [] OTHER -> UNDEF("monad")

RECURSIVE Mo(_, _)
Mo(e, a) ==
    IF IsI(a) THEN MoInt(e, a.i)
    ELSE IF IsL(a) THEN VL([k \in 1..Len(a.l) |-> Mo(e, a.l[k])])
    ELSE IF IsS(a) THEN UNDEF("numeric-monad-on-string")
    ELSE UNDEF("monad-types")

---------------------------------------------------------------------------
(* structural list elements on lists                                       *)

RECURSIVE Flatten(_)
Flatten(s) ==
    IF s = <<>> THEN <<>>
    ELSE IF IsL(Head(s)) THEN Flatten(Head(s).l) \o Flatten(Tail(s))
    ELSE <<Head(s)>> \o Flatten(Tail(s))

RevSeq(s) == [k \in 1..Len(s) |-> s[Len(s) - k + 1]]

RECURSIVE Uniq(_, _)
Uniq(s, seen) ==
    IF s = <<>> THEN <<>>
    ELSE IF \E k \in 1..Len(seen) : seen[k] = Head(s) THEN Uniq(Tail(s), seen)
    ELSE <<Head(s)>> \o Uniq(Tail(s), Append(seen, Head(s)))

(* foldl(add, items): first item, then add(working, item) *)
RECURSIVE SumFrom(_, _)
SumFrom(acc, s) == IF s = <<>> THEN acc ELSE SumFrom(Dy("add", acc, Head(s)), Tail(s))
SumList(s) == IF s = <<>> THEN VI(0) ELSE SumFrom(Head(s), Tail(s))

AllInts(s) == \A k \in 1..Len(s) : IsI(s[k])

(* stable insertion sort of records [v, key] by integer key *)
RECURSIVE InsertKeyed(_, _)
InsertKeyed(s, x) ==
    IF s = <<>> THEN <<x>>
    ELSE IF x.key < Head(s).key THEN <<x>> \o s
    ELSE <<Head(s)>> \o InsertKeyed(Tail(s), x)
RECURSIVE SortKeyed(_)
SortKeyed(s) == IF s = <<>> THEN <<>> ELSE InsertKeyed(SortKeyed(SubSeq(s, 1, Len(s) - 1)), s[Len(s)])
SortInts(s) == LET r == SortKeyed([k \in 1..Len(s) |-> [v |-> s[k], key |-> s[k].i]])
               IN [k \in 1..Len(s) |-> r[k].v]

(* maximum / minimum of a non-empty sequence of integers *)
RECURSIVE MaxOf(_)
MaxOf(s) == IF Len(s) = 1 THEN s[1].i ELSE MaxN(s[1].i, MaxOf(Tail(s)))
RECURSIVE MinOf(_)
MinOf(s) == IF Len(s) = 1 THEN s[1].i ELSE LET m == MinOf(Tail(s)) IN IF s[1].i < m THEN s[1].i ELSE m

RECURSIVE ProdFrom(_, _)
ProdFrom(acc, s) == IF s = <<>> THEN acc ELSE ProdFrom(Dy("mul", acc, Head(s)), Tail(s))
RECURSIVE RunningSums(_, _)
RunningSums(acc, s) ==       \* scanl(add): acc is the last value already emitted
    IF s = <<>> THEN <<>> ELSE LET x == Dy("add", acc, Head(s)) IN <<x>> \o RunningSums(x, Tail(s))
CountOf(s, x) == Cardinality({k \in 1..Len(s) : s[k] = x})
NoFnIn(s) == \A k \in 1..Len(s) : ~IsF(s[k])

VecMonads == {"inc", "dec", "neg", "dbl", "r1", "r0", "sq", "sign", "abs", "parity", "compl", "halve", "r0i", "r1x"}

Monad(e, a) ==
    CASE e \in VecMonads -> Mo(e, a)
      [] e = "even" -> IF IsI(a) THEN VI(IF a.i % 2 = 0 THEN 1 ELSE 0)          \* NOT vectorising: a list's length
                      ELSE IF IsL(a) THEN VI(IF Len(a.l) % 2 = 0 THEN 1 ELSE 0)
                      ELSE IF IsS(a) THEN VI(IF Len(a.s) % 2 = 0 THEN 1 ELSE 0) ELSE UNDEF("even-of-function")
      [] e = "div3" -> IF IsI(a) THEN VI(IF a.i % 3 = 0 THEN 1 ELSE 0)
                      ELSE IF IsL(a) THEN VI(IF Len(a.l) = 1 THEN 1 ELSE 0)
                      ELSE IF IsS(a) THEN VI(IF Len(a.s) = 1 THEN 1 ELSE 0) ELSE UNDEF("div3-of-function")
      [] e = "hrem" -> IF IsL(a) THEN VL(IF a.l = <<>> THEN <<>> ELSE Tail(a.l))
                      ELSE IF IsS(a) THEN (IF a.s = <<>> THEN VL(<<>>) ELSE VS(Tail(a.s)))     \* "" gives the empty LIST
                      ELSE UNDEF("head-remove-of-scalar")
      [] e = "trem" -> IF IsL(a) THEN VL(IF a.l = <<>> THEN <<>> ELSE SubSeq(a.l, 1, Len(a.l) - 1))
                      ELSE IF IsS(a) /\ a.s # <<>> THEN VS(SubSeq(a.s, 1, Len(a.s) - 1))
                      ELSE UNDEF("tail-remove-of-scalar")
      [] e \in {"max", "min"} ->
           IF ~IsL(a) THEN UNDEF("max-of-scalar")
           ELSE LET fl == Flatten(a.l)
                IN IF fl = <<>> THEN VL(<<>>)
                   ELSE IF ~AllInts(fl) THEN UNDEF("max-domain")
                   ELSE VI(IF e = "max" THEN MaxOf(fl) ELSE MinOf(fl))
      [] e = "prod" -> IF ~IsL(a) THEN UNDEF("product-of-scalar")
                       ELSE IF a.l = <<>> THEN VI(0)                           \* foldl of nothing
                       ELSE ProdFrom(Head(a.l), Tail(a.l))
      [] e = "lenr1" -> IF IsL(a) THEN VL(RangeSeq(1, Len(a.l))) ELSE UNDEF("length-range-of-scalar")
      [] e = "lenr0" -> IF IsL(a) THEN VL(RangeSeq(0, Len(a.l) - 1)) ELSE UNDEF("length-range-of-scalar")
      [] e = "alleq" -> IF IsL(a) /\ NoFnIn(a.l) THEN VI(IF \A k \in 1..Len(a.l) : a.l[k] = a.l[1] THEN 1 ELSE 0)
                       ELSE UNDEF("all-equal-domain")
      [] e = "any" -> IF IsL(a) /\ NoFnIn(a.l) THEN VI(IF \E k \in 1..Len(a.l) : PyTruthy(a.l[k]) THEN 1 ELSE 0)
                     ELSE UNDEF("any-domain")
      [] e = "all" -> IF IsL(a) /\ NoFnIn(a.l) THEN VI(IF \A k \in 1..Len(a.l) : PyTruthy(a.l[k]) THEN 1 ELSE 0)
                     ELSE UNDEF("all-domain")
      [] e = "deltas" -> IF IsL(a) THEN VL([k \in 1..(Len(a.l) - 1) |-> Dy("sub", a.l[k + 1], a.l[k])])
                        ELSE UNDEF("deltas-of-scalar")
      [] e = "cumsum" -> IF ~IsL(a) THEN UNDEF("cumsum-of-scalar")
                        ELSE IF a.l = <<>> THEN VL(<<>>)
                        ELSE VL(<<Head(a.l)>> \o RunningSums(Head(a.l), Tail(a.l)))
      [] e = "inc" -> Mo("inc", a)
      [] e = "dec" -> Mo("dec", a)
      [] e = "neg" -> Mo("neg", a)
      [] e = "dbl" -> Mo("dbl", a)
      [] e = "r1" -> Mo("r1", a)
      [] e = "r0" -> Mo("r0", a)
      [] e = "wrap" -> VL(<<a>>)
      [] e = "sum" -> IF IsL(a) THEN SumList(a.l) ELSE UNDEF("sum-of-scalar")
      [] e = "len" -> IF IsL(a) THEN VI(Len(a.l)) ELSE IF IsS(a) THEN VI(Len(a.s)) ELSE UNDEF("len-of-scalar")
      [] e = "head" -> IF IsL(a) THEN (IF a.l = <<>> THEN VI(0) ELSE a.l[1])
                      ELSE IF IsS(a) THEN VS(IF a.s = <<>> THEN <<>> ELSE <<a.s[1]>>) ELSE UNDEF("head-of-scalar")
      [] e = "tail" -> IF IsL(a) THEN (IF a.l = <<>> THEN VI(0) ELSE a.l[Len(a.l)])
                      ELSE IF IsS(a) THEN VS(IF a.s = <<>> THEN <<>> ELSE <<a.s[Len(a.s)]>>) ELSE UNDEF("tail-of-scalar")
      [] e = "flat" -> IF IsL(a) /\ ~HasS(a) THEN VL(Flatten(a.l)) ELSE UNDEF("flatten-domain")
      [] e = "rev" -> IF IsL(a) THEN VL(RevSeq(a.l)) ELSE IF IsS(a) THEN VS(RevSeq(a.s)) ELSE UNDEF("reverse-of-scalar")
      [] e = "uniq" -> IF IsL(a) THEN VL(Uniq(a.l, <<>>)) ELSE UNDEF("uniq-of-scalar")
      [] e = "sort" -> IF IsL(a) /\ AllInts(a.l) THEN VL(SortInts(a.l)) ELSE UNDEF("sort-domain")
      [] e = "not" -> IF IsF(a) THEN UNDEF("not-fn") ELSE VI(IF PyTruthy(a) THEN 0 ELSE 1)
      [] OTHER -> UNDEF("monad-unknown")

Dyad(e, a, b) ==     \* a = lhs (deeper), b = rhs (top)
    CASE e \in {"add", "sub", "mul", "eq", "lt", "gt", "le", "ge", "mod", "idiv"} -> Dy(e, a, b)
      [] e = "ne" -> IF IsF(a) \/ IsF(b) THEN UNDEF("ne-fn")                                    \* NOT vectorising
                    ELSE IF IsSc(a) /\ IsSc(b) /\ (IsS(a) \/ IsS(b)) THEN B01(ScStr(a) # ScStr(b))
                    ELSE VI(IF a = b THEN 0 ELSE 1)
      [] e = "dmax" -> IF IsI(a) /\ IsI(b) THEN (IF a.i > b.i THEN a ELSE b) ELSE UNDEF("max-types")
      [] e = "dmin" -> IF IsI(a) /\ IsI(b) THEN (IF a.i < b.i THEN a ELSE b) ELSE UNDEF("min-types")
      [] e = "absdiff" -> IF IsI(a) /\ IsI(b) THEN MkI(Abs(a.i - b.i)) ELSE UNDEF("absdiff-types")
      \* prepend is merge with the operands exchanged (PrependIsMerge: the type table always hits)
      [] e = "prepend" -> IF IsL(a) /\ IsL(b) THEN VL(b.l \o a.l)
                         ELSE IF IsL(b) /\ IsSc(a) THEN VL(Append(b.l, a))
                         ELSE IF IsSc(b) /\ IsL(a) THEN VL(<<b>> \o a.l)
                         ELSE IF IsSc(a) /\ IsSc(b) /\ (IsS(a) \/ IsS(b)) THEN VS(ScStr(b) \o ScStr(a))
                         ELSE UNDEF("prepend-types")
      \* membership / count: with one list the list is searched; with two, the deeper one
      [] e = "contains" -> IF IsL(a) /\ ~IsF(b) THEN VI(IF \E k \in 1..Len(a.l) : a.l[k] = b THEN 1 ELSE 0)
                          ELSE IF IsSc(a) /\ IsL(b) THEN VI(IF \E k \in 1..Len(b.l) : b.l[k] = a THEN 1 ELSE 0)
                          ELSE UNDEF("contains-types")
      [] e = "count" -> IF IsL(a) /\ ~IsF(b) THEN VI(CountOf(a.l, b))
                       ELSE IF IsSc(a) /\ IsL(b) THEN VI(CountOf(b.l, a))
                       ELSE UNDEF("count-types")
      [] e = "pair" -> VL(<<a, b>>)
      [] e = "merge" -> IF IsL(a) /\ IsL(b) THEN VL(a.l \o b.l)
                    ELSE IF IsL(a) /\ IsSc(b) THEN VL(Append(a.l, b))
                    ELSE IF IsSc(a) /\ IsL(b) THEN VL(<<a>> \o b.l)
                    ELSE IF IsSc(a) /\ IsSc(b) /\ (IsS(a) \/ IsS(b)) THEN VS(ScStr(a) \o ScStr(b))
                    ELSE UNDEF("merge-types")
      [] e = "and" -> IF IsF(a) \/ IsF(b) THEN UNDEF("and-fn") ELSE IF PyTruthy(a) THEN b ELSE a
      [] e = "or" -> IF IsF(a) \/ IsF(b) THEN UNDEF("or-fn") ELSE IF PyTruthy(a) THEN a ELSE b
      [] OTHER -> UNDEF("dyad-unknown")

MonadKeys == VecMonads \cup {"wrap", "sum", "len", "head", "tail", "flat", "rev", "uniq", "sort", "not",
                             "even", "div3", "hrem", "trem", "max", "min", "prod", "lenr1", "lenr0", "alleq", "any", "all",
                             "deltas", "cumsum"}
DyadKeys == {"add", "sub", "mul", "eq", "lt", "gt", "pair", "merge", "and", "or",
             "le", "ge", "mod", "idiv", "ne", "dmax", "dmin", "absdiff", "prepend", "contains", "count"}
====
