SPECIFICATION Spec
CONSTANTS
  MaxCells = 4
  AllowInPlace = TRUE
PROPERTY Immutable
CHECK_DEADLOCK FALSE
