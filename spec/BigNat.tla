---- MODULE BigNat ----
(***************************************************************************)
(* Natural numbers of unbounded size as little-endian sequences of base    *)
(* 10^4 limbs (TLC integers are 32 bit; a limb product plus carry stays    *)
(* below 2^31).  The canonical form has no leading (last) zero limb; zero  *)
(* is the empty sequence.  Decimal digit sequences (big-endian, digits     *)
(* 0..9) are how the harness logs big numbers.                             *)
(***************************************************************************)
EXTENDS Integers, Sequences

Base == 10000

RECURSIVE Norm(_)
Norm(a) == IF a # <<>> /\ a[Len(a)] = 0 THEN Norm(SubSeq(a, 1, Len(a) - 1)) ELSE a

BigZero == <<>>
BigOfNat(n) ==   \* n < 10^9
    Norm(<<n % Base, (n \div Base) % Base, n \div (Base * Base)>>)

(* value of up to 4 decimal digits, big-endian *)
RECURSIVE Small(_)
Small(ds) == IF ds = <<>> THEN 0 ELSE 10 * Small(SubSeq(ds, 1, Len(ds) - 1)) + ds[Len(ds)]

RECURSIVE FromDigitsR(_)
FromDigitsR(ds) ==   \* ds big-endian digits -> limbs little-endian
    IF ds = <<>> THEN <<>>
    ELSE IF Len(ds) <= 4 THEN <<Small(ds)>>
    ELSE <<Small(SubSeq(ds, Len(ds) - 3, Len(ds)))>> \o FromDigitsR(SubSeq(ds, 1, Len(ds) - 4))
FromDigits(ds) == Norm(FromDigitsR(ds))

RECURSIVE AddC(_, _, _)
AddC(a, b, c) ==
    IF a = <<>> /\ b = <<>> THEN (IF c = 0 THEN <<>> ELSE <<c>>)
    ELSE LET x == IF a = <<>> THEN 0 ELSE Head(a)
             y == IF b = <<>> THEN 0 ELSE Head(b)
             s == x + y + c
         IN <<s % Base>> \o AddC(IF a = <<>> THEN <<>> ELSE Tail(a),
                                 IF b = <<>> THEN <<>> ELSE Tail(b), s \div Base)
BigAdd(a, b) == Norm(AddC(a, b, 0))

RECURSIVE MulSmallC(_, _, _)
MulSmallC(a, m, c) ==   \* 0 <= m < Base
    IF a = <<>> THEN (IF c = 0 THEN <<>> ELSE <<c>>)
    ELSE LET p == Head(a) * m + c IN <<p % Base>> \o MulSmallC(Tail(a), m, p \div Base)
BigMulSmall(a, m) == Norm(MulSmallC(a, m, 0))

RECURSIVE BigMul(_, _)
BigMul(a, b) ==
    IF b = <<>> THEN <<>>
    ELSE BigAdd(BigMulSmall(a, Head(b)), IF Tail(b) = <<>> THEN <<>> ELSE <<0>> \o BigMul(a, Tail(b)))

BigEq(a, b) == Norm(a) = Norm(b)

RECURSIVE BigPow10(_)
BigPow10(k) == IF k = 0 THEN <<1>>
               ELSE IF k >= 4 THEN <<0>> \o BigPow10(k - 4)
               ELSE BigMulSmall(BigPow10(k - 1), 10)

RECURSIVE BigToNat(_)
BigToNat(a) == IF a = <<>> THEN 0 ELSE Head(a) + Base * BigToNat(Tail(a))   \* only when < 2^31

(* a <= b *)
RECURSIVE LeqR(_, _)
LeqR(a, b) ==   \* same length, compare from the most significant limb
    IF a = <<>> THEN TRUE
    ELSE IF a[Len(a)] # b[Len(b)] THEN a[Len(a)] < b[Len(b)]
    ELSE LeqR(SubSeq(a, 1, Len(a) - 1), SubSeq(b, 1, Len(b) - 1))
BigLeq(a, b) == LET x == Norm(a) y == Norm(b)
                IN IF Len(x) # Len(y) THEN Len(x) < Len(y) ELSE LeqR(x, y)
====
