SPECIFICATION LexSpec
CONSTANTS
  Alphabet = {48, 49, 57, 46, 176, 96, 92, 97, 124, 107, 8314, 35, 10, 8594}
  MaxLen = 4
INVARIANT TokenTypeOK
INVARIANT RunAgrees
INVARIANT NoCharLost
INVARIANT SplitOK
INVARIANT Maximal
PROPERTY Progress
PROPERTY TokensOnlyGrow
CHECK_DEADLOCK FALSE
