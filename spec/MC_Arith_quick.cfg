SPECIFICATION Spec
CONSTANTS
  MaxNum = 6
  MaxDen = 4
INVARIANT Accepts
INVARIANT Rejects
INVARIANT WrongWitnessRejected
INVARIANT Identities
CHECK_DEADLOCK FALSE
