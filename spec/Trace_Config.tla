---- MODULE Trace_Config ----
(***************************************************************************)
(* C20: validation of the extracted tables and of the observed behaviour   *)
(* of encoding / tokenise / parse on every byte, byte pair and table key.  *)
(*  op = "codepage" : cp (observed code page text)                         *)
(*  op = "bytes"    : items = list of [bytes, txt, back, err]              *)
(*  op = "key"      : key, table, toks, tree, err, nocc, arity             *)
(*  op = "doc"      : key, docarity (-99 = not numeric), tabarity          *)
(*                    (-98 = no table entry), kind                         *)
(***************************************************************************)
EXTENDS VyConfig, Json, IOUtils, TLCExt

BatchFile == JsonDeserialize(IOEnv.TRACE_FILE)
ASSUME TLCSet(7, BatchFile)
Batch == TLCGet(7)

VARIABLES tid, phase
T == Batch[tid]

VerdictCodepage(t) ==
    IF t.cp # Codepage THEN "drift:extracted-codepage-differs"
    ELSE IF ~CodepageIs256 THEN "violation:codepage-length"
    ELSE IF ~CodepageInjective THEN "violation:codepage-not-injective"
    ELSE "ok"

ItemOK(it) == it.err = "" /\ it.back = it.bytes /\ Len(it.txt) = Len(it.bytes)   \* observed only
ItemConforms(it) == it.txt = ToText(it.bytes) /\ RoundTrip(it.bytes)

VerdictBytes(t) ==
    IF \E i \in 1..Len(t.items) : ~ItemOK(t.items[i]) THEN "violation:byte-roundtrip"
    ELSE IF \E i \in 1..Len(t.items) : ~ItemConforms(t.items[i]) THEN "drift:encoding"
    ELSE "ok"

(* the key keeps its own general token next to a number, a letter or a string:
   observed tokens = reference tokens, and the reference has the key token in place *)
LexC(c, x) == IF "vflag" \in DOMAIN c /\ c.vflag THEN LexV(x) ELSE Lex(x)        \* flag V: one-character names
CtxOK(key, c) ==
    LET want == LexC(c, c.pre) \o <<Tok("general", key)>> \o LexC(c, c.post)
    IN IF "loose" \in DOMAIN c /\ c.loose
       \* after a digraph prefix (k, ∆, ø, Þ, ¨) most characters are absorbed into a two-character element;
       \* where the documented scanning keeps the key apart (the branch separator), so must the implementation
       THEN c.err = "" /\ (LexC(c, c.pre \o key \o c.post) = want => c.toks = want)
       ELSE c.err = "" /\ c.toks = want /\ LexC(c, c.pre \o key \o c.post) = want

VerdictKey(t) ==
    IF \E i \in 1..Len(t.key) : ~InCodepage(t.key[i]) THEN "violation:not-in-codepage"
    ELSE IF t.err # "" \/ t.toks # <<Tok("general", t.key)>> THEN "violation:not-one-token"
    ELSE IF t.table = "elements" /\ t.tree # <<Gen(Tok("general", t.key))>> THEN "violation:shadowed-by-syntax"
    ELSE IF t.table = "modifiers" /\ ~t.inparser THEN "violation:modifier-unknown-to-parser"
    ELSE IF \E i \in 1..Len(t.ctxs) : ~CtxOK(t.key, t.ctxs[i]) THEN "violation:not-one-token-in-context"
    ELSE IF t.nocc > 1 THEN "violation:duplicate-key"
    ELSE IF t.table = "elements" /\ t.nocc = 1 /\ t.arity # t.runarity THEN "violation:table-arity-differs-from-source"
    ELSE IF "lamarity" \in DOMAIN t /\ t.lamarity # -1 /\ t.lamarity # t.runarity THEN "violation:arity-as-modifier-operand"
    \* a modifier applied to distinct operands groups them as the reference parser does (each operand reachable, in order)
    ELSE IF "modtext" \in DOMAIN t /\ t.modtext # <<>> /\ t.modtree # ParseText(t.modtext) THEN "violation:modifier-operands"
    ELSE IF ~LexesAsOneToken(t.key) THEN "drift:spec-lexer"
    ELSE IF t.table = "elements" /\ ~ParsesAsElement(t.key) THEN "drift:spec-parser"
    ELSE "ok"

SyntaxChars == Openers \cup Closers \cup AllMods \cup StringHeads \cup NumChars \cup DigraphHeads
               \cup {c_X, c_x, c_pipe, c_space, c_nl, c_bslash, c_two_str, c_set, c_get, c_hash, c_sup_plus}
IsSyntaxKey(key) == Len(key) = 1 /\ key[1] \in SyntaxChars

VerdictDoc(t) ==
    IF t.tabarity = -98 THEN (IF IsSyntaxKey(t.key) \/ t.ismod THEN "ok" ELSE "violation:documented-but-not-in-table")
    ELSE IF t.docarity = -99 THEN "ok"
    ELSE IF t.docarity # t.tabarity THEN "violation:arity"
    ELSE "ok"

Verdict(t) ==
    CASE t.op = "codepage" -> VerdictCodepage(t)
      [] t.op = "bytes" -> VerdictBytes(t)
      [] t.op = "key" -> VerdictKey(t)
      \* a variable access as a modifier operand: a get is a constant (arity 0), a set takes one value -- whatever the name
      [] t.op = "varop" -> IF t.lamarity # t.want THEN "violation:arity-as-modifier-operand" ELSE "ok"
      [] OTHER -> VerdictDoc(t)

Init == tid \in 1..Len(Batch) /\ phase = "start"
Decide == /\ phase = "start" /\ phase' = "done" /\ tid' = tid
          /\ PrintT(<<"V", tid, Verdict(T)>>)
Next == Decide
====
