"""C15 Compression and base-conversion codecs round-trip.

Spec:  MC_Codec (the encode loop as a machine: loop invariant, digit range,
       round trip, for every n <= 3000 x 5 bases) and VyCodec (Horner over
       unbounded integers; alphabets = extracted code page minus delimiter).
Bind:  to_base/from_base, number / string / dictionary compression of the
       implementation; compressed literals are run as programs; TLC checks the
       round trip and that the literal text denotes the value.
"""
from __future__ import annotations

import string
import time

from . import common, extract, runner, tlc
from .common import cps

PID = "C15"


def digits(n):
    return [int(c) for c in str(n)]


def run_literal(text, dc=True):
    stack, ctx, err = common.with_alarm(lambda _: runner.exec_text(text, dict_compress=dc), None, 10)
    return stack, err


def observe(case):
    import vyxal.elements as E
    from vyxal.context import Context

    ctx = Context()
    kind = case[0]
    try:
        if kind == "tobase":
            _, n, b = case
            ev = {"op": "tobase", "n": digits(n), "b": b, "ds": [], "back": [], "err": ""}
            try:
                ds = E.to_base(n, b, ctx)
                ds = [int(d) for d in ds]
                ev["ds"] = ds
                ev["back"] = digits(int(E.from_base(list(ds), b, ctx)))
            except Exception as e:  # noqa: BLE001
                ev["err"] = type(e).__name__
            return ev
        if kind == "numc":
            _, n = case
            ev = {"op": "numc", "n": digits(n), "text": [], "pushed": [-1], "err": ""}
            try:
                text = E.base_255_number_compress(n, ctx)
                ev["text"] = cps(text)
                stack, err = run_literal(text)
                if err or len(stack) != 1:
                    ev["err"] = "run:" + (err or f"{len(stack)}-values").split(":")[1 if err and ":" in err else 0]
                else:
                    j = runner.num_json(stack[0])
                    ev["pushed"] = j["num"] if j["ty"] == "int" and not j["neg"] else [-1]
            except Exception as e:  # noqa: BLE001
                ev["err"] = type(e).__name__
            return ev
        _, s = case
        ev = {"op": kind, "s": cps(s), "text": [], "pushed": [-1], "err": ""}
        try:
            text = E.base_255_string_compress(s, ctx) if kind == "strc" else E.optimal_compress(s, ctx)
            ev["text"] = cps(text)
            stack, err = run_literal(text)
            if err or len(stack) != 1 or not isinstance(stack[0], str):
                ev["err"] = "run:" + (err.split(":")[1] if err and ":" in err else "not-one-string")
            else:
                ev["pushed"] = cps(stack[0])
        except Exception as e:  # noqa: BLE001
            ev["err"] = type(e).__name__
        return ev
    except common.CaseTimeout:
        return {"op": kind if kind != "tobase" else "tobase", "n": [0], "b": 2, "ds": [], "back": [], "s": [], "text": [],
                "pushed": [-1], "err": "hang"}


def main(tier):
    t0 = time.time()
    rng = common.rng(15)
    V = common.Verdicts(PID)
    common.import_repo()
    import vyxal.dictionary as D

    cs = []
    top = 1200 if tier == "quick" else 100000
    for n in range(0, top + 1):
        cs.append(("numc", n)) if n >= 1 else None
    for n in list(range(0, 300 if tier == "quick" else 5000)):
        for b in ((2, 10, 27, 255) if tier == "quick" else (2, 3, 10, 16, 27, 255)):
            cs.append(("tobase", n, b))
    bases = list(range(2, 301)) if tier == "thorough" else list(range(2, 301, 13)) + [10, 27, 255, 256, 300]
    for b in bases:
        for k in (1, 2, 3, 5, 8, 13, 20, 30, 50):
            if b ** k > 10 ** 120:
                continue
            for d in (-1, 0, 1):
                n = b ** k + d
                if n >= 0:
                    cs.append(("tobase", n, b))
    for k in range(1, 50):
        for d in (-1, 0, 1):
            cs.append(("numc", 255 ** k + d))
            cs.append(("numc", 10 ** (2 * k) + d))
    for _ in range(250 if tier == "quick" else 10000):
        cs.append(("numc", rng.randint(1, 10 ** rng.randint(1, 120))))
        cs.append(("tobase", rng.randint(0, 10 ** rng.randint(1, 60)), rng.randint(2, 300)))
    low = "abcdefghijklmnopqrstuvwxyz "
    import itertools
    for L in range(1, 3 if tier == "quick" else 4):
        for tup in itertools.product(low, repeat=L):
            s = "".join(tup)
            if not s.startswith(" "):
                cs.append(("strc", s))
    for _ in range(400 if tier == "quick" else 8000):
        s = rng.choice(low[:-1]) + "".join(rng.choice(low) for _ in range(rng.randint(0, 79)))
        cs.append(("strc", s))
    words = [w for w in D.contents[:: max(1, len(D.contents) // (3000 if tier == "quick" else 1))] if w.isascii()]
    # the ends of both dictionaries (index boundaries of the two-character and one-character codes)
    edge = [w for w in (D.contents[:40] + D.contents[-40:] + list(D.small_dictionary[:20]) + list(D.small_dictionary[-20:]))
            if w and w.isascii() and "`" not in w and "\\" not in w]
    for w in edge:
        cs.append(("dict", w))
        cs.append(("dict", "say " + w + " twice " + w))
    words = words + edge
    asc = [c for c in string.printable[:95] if c not in "\\`"]
    for _ in range(600 if tier == "quick" else 10000):
        parts = []
        for _ in range(rng.randint(1, 6)):
            k = rng.random()
            parts.append(rng.choice(words) if k < 0.6 else "".join(rng.choice(asc) for _ in range(rng.randint(1, 6))))
            if rng.random() < 0.5:
                parts.append(" ")
        cs.append(("dict", "".join(parts)))
    cs = [c for c in cs if c is not None]
    cs = list(dict.fromkeys(cs))
    extra = {"VyConfigData.tla": extract.config_module(extract.codepage())}
    with common.Scratch(PID) as s:
        mc = tlc.model_check(s, "MC_Codec", cfg="MC_Codec", workers=16, extra_files=extra)
        if not mc["ok"]:
            V.add("spec:MC_Codec:" + str(mc["violated"]), {"trace": tlc.counterexample(mc["out"])})
        obs = common.pool_map(observe, cs, initfn=common.import_repo, hard_timeout=60,
                              on_timeout=lambda c: {"op": "tobase", "n": [0], "b": 2, "ds": [], "back": [], "err": "hang"})
        verdicts, st = tlc.validate(s, "Trace_Codec", obs, cfg="Trace_Codec.cfg", chunk=3000, extra_files=extra)
    tally = {}
    for c, v in zip(cs, verdicts):
        tally[v] = tally.get(v, 0) + 1
        if v.startswith("violation"):
            what = v.split(":", 1)[1]
            if c[0] == "tobase":
                sig = f"{what}:n={c[1] if c[1] < 10**12 else 'b^k' }:base={c[2]}" if c[1] < 10 ** 12 else f"{what}:to_base:{c[1]}:{c[2]}"
            else:
                sig = f"{what}:{c[0]}:{c[1]!r}"
            V.add(sig, {"case": [str(x)[:140] for x in c], "verdict": v})
        elif v.startswith("drift"):
            V.add_drift({"case": [str(x)[:100] for x in c], "verdict": v})
    rc = V.finish()
    common.write_evidence(
        PID, tier, t0,
        {
            "states": mc["distinct"], "transitions": mc["generated"], "traces_validated_against_impl": len(cs),
            "samples": [{"case": [str(x)[:60] for x in c], "verdict": v} for c, v in list(zip(cs, verdicts))[:: max(1, len(cs) // 12)][:12]],
            "evaluations": len(cs), "distinct_nontrivial": len(cs),
            "rule": f"number compression of every integer 1..{top}, 255^k and 10^2k +-1, random to 10^120; to_base/from_base of "
                    "0..599/4999 in 6 bases, b^k-1, b^k, b^k+1 for bases 2..300, random to 10^60; string compression of every "
                    "string <= 3 over [a-z ] (not starting with a space) and random to length 80; dictionary compression of "
                    "random concatenations of dictionary words and ASCII; all distinct",
            "verdicts": tally, "mc": {"module": "MC_Codec", "distinct": mc["distinct"],
                                      "invariants": ["LoopInvariant", "DigitRange", "RoundTrip", "NoLeadingZero"]},
            "trace_tlc": {k: st[k] for k in st if k != "extra"}, "exhaustive": False,
        },
        ["alphabets are derived in the specification from the extracted code page by the documented exclusion",
         "values are logged as decimal digit lists; TLC compares by Horner evaluation over unbounded integers",
         "transcribed-function form: the ∀ is over inputs"],
        len(V.violations),
    )
    print(f"C15 {tier}: {len(cs)} cases, verdicts {tally}, MC {mc['distinct']} states, {time.time() - t0:.1f}s")
    return rc
