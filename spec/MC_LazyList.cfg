SPECIFICATION Spec
CONSTANTS
  Vals = {0, 1, 2}
  MaxLen = 3
INVARIANT Refines
INVARIANT CachePrefix
INVARIANT IteratorsAgree
PROPERTY AppendOnly
CHECK_DEADLOCK FALSE
