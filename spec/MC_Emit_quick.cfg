SPECIFICATION Spec
CONSTANT MaxToks = 4
INVARIANT ValidPython
CHECK_DEADLOCK FALSE
