---- MODULE VyArith ----
(***************************************************************************)
(* C07: the number overloads of  + - * / % and floor division on exact     *)
(* rationals (vyxal/elements.py add, subtract, multiply, divide, modulo,   *)
(* integer_divide).  The definitions are the mathematical ones; results    *)
(* are recognised by cross-multiplication, so no gcd or long division is   *)
(* needed:  r is floor(a/b)  iff  r integer and  r <= a/b < r+1.           *)
(*   DivisionByZeroIsZero: a / 0 = 0 and floor division by 0 = 0.          *)
(*   modulo: a - b * floor(a/b) (sign of the divisor); b = 0 is outside    *)
(*   the property.                                                          *)
(***************************************************************************)
EXTENDS BigInt

IsZeroRat(a) == SIsZero(a.p)

IsFloorOf(r, a, b) ==       \* b # 0
    LET q == RatDiv(a, b) IN RatIsInt(r) /\ RatLeq(r, q) /\ RatLt(q, RatAdd(r, RatOne))

(* k is a witness for modulo (the claimed floor of a/b, checked here); other operators ignore it *)
ArithOK(op, a, b, r, k) ==
    CASE op = "add" -> RatEqS(r, RatAdd(a, b))
      [] op = "sub" -> RatEqS(r, RatSub(a, b))
      [] op = "mul" -> RatEqS(r, RatMul(a, b))
      [] op = "div" -> IF IsZeroRat(b) THEN IsZeroRat(r) ELSE RatEqS(r, RatDiv(a, b))
      [] op = "idiv" -> IF IsZeroRat(b) THEN IsZeroRat(r) ELSE IsFloorOf(r, a, b)
      [] op = "mod" -> IF IsZeroRat(b) THEN TRUE
                       ELSE IsFloorOf(k, a, b) /\ RatEqS(r, RatSub(a, RatMul(b, k)))
      [] OTHER -> FALSE
====
