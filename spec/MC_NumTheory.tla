---- MODULE MC_NumTheory ----
(***************************************************************************)
(* The definitions agree with each other on a small domain (sanity /       *)
(* anti-vacuity of the laws): counting totient = product formula, divisors *)
(* pair up, gcd * lcm = product, Isqrt is the integer square root, a prime *)
(* has exactly two divisors.                                               *)
(***************************************************************************)
EXTENDS VyNumTheory, TLC

CONSTANT MaxN
VARIABLES n, m
Init == n \in 1..MaxN /\ m \in {1, 2, 6, 35, 36}
Next == FALSE /\ UNCHANGED <<n, m>>
Spec == Init /\ [][Next]_<<n, m>>

DivisorSet(x) == {d \in 1..x : Divides(d, x)}
PrimeSet(x) == {p \in 2..x : IsPrime(p) /\ Divides(p, x)}
SetToInc(S) == LET F[k \in 0..Cardinality(S)] == IF k = 0 THEN <<>> ELSE Append(F[k - 1], CHOOSE x \in S : Cardinality({y \in S : y < x}) = k - 1)
               IN F[Cardinality(S)]

IsqrtOK == Isqrt(n) * Isqrt(n) <= n /\ (Isqrt(n) + 1) * (Isqrt(n) + 1) > n
PrimeHasTwoDivisors == IsPrime(n) <=> Cardinality(DivisorSet(n)) = 2
GcdLcm == GCD(n, m) * ((n * m) \div GCD(n, m)) = n * m
TotientAgrees == NumLaw("totient-formula", n, 0, Totient(n), <<>>, SetToInc(PrimeSet(n)))
TotientRejects == ~NumLaw("totient-formula", n, 0, Totient(n) + 1, <<>>, SetToInc(PrimeSet(n)))
DivisorsLaw == NumLaw("divisors", n, 0, 0, SetToInc(DivisorSet(n)), <<>>)
DivisorsRejects == n > 1 => ~NumLaw("divisors", n, 0, 0, SubSeq(SetToInc(DivisorSet(n)), 2, Cardinality(DivisorSet(n))), <<>>)
BinaryLaw == NumLaw("digits", n, 0, 0, DecDigits(n), <<>>) /\ HornerN(DecDigits(n), 10) = n
====
