---- MODULE Trace_Codec ----
(***************************************************************************)
(* C15 on the implementation.  One event per codec call:                   *)
(*  op "tobase"  n (decimal digits), b, ds, back (decimal digits of         *)
(*               from_base(ds, b)), err                                    *)
(*  op "numc"    n, text (the compressed literal), pushed (digits or <<-1>>)*)
(*  op "strc"    s, text, pushed (code points)                             *)
(*  op "dict"    s, text, pushed                                           *)
(* Prop_C15: round trip (value pushed / converted back = original), digits *)
(* inside the base, dictionary literal not longer than the plain literal.  *)
(* Conformance: the literal text denotes the value by Horner over the      *)
(* alphabets of VyCodec.                                                   *)
(***************************************************************************)
EXTENDS VyCodec, Json, IOUtils, TLC, TLCExt

BatchFile == JsonDeserialize(IOEnv.TRACE_FILE)
ASSUME TLCSet(7, BatchFile)
Batch == TLCGet(7)

VARIABLES tid, phase
T == Batch[tid]

Body(text) == SubSeq(text, 2, Len(text) - 1)

Verdict(t) ==
    CASE t.op = "tobase" ->
           IF t.err # "" THEN "violation:tobase-raised-" \o t.err
           ELSE IF ~DigitsOK(t.ds, t.b) THEN "violation:digit-outside-base"
           ELSE IF ~BigEq(HornerBig(t.ds, t.b), FromDigits(t.n)) THEN "violation:digits-denote-another-number"
           ELSE IF t.back # t.n THEN "violation:frombase-roundtrip"
           ELSE "ok"
      [] t.op = "numc" ->
           IF t.err # "" THEN "violation:numc-raised-" \o t.err
           ELSE IF t.pushed # t.n THEN "violation:number-roundtrip"
           ELSE IF ~(Len(t.text) >= 2 /\ t.text[1] = 187 /\ t.text[Len(t.text)] = 187 /\ AllIn(NumberAlphabet, Body(t.text)))
                THEN "drift:literal-form"
           ELSE IF ~BigEq(HornerBig(IndicesIn(NumberAlphabet, Body(t.text)), 255), FromDigits(t.n)) THEN "drift:literal-value"
           ELSE "ok"
      [] t.op = "strc" ->
           IF t.err # "" THEN "violation:strc-raised-" \o t.err
           ELSE IF t.pushed # t.s THEN "violation:string-roundtrip"
           ELSE IF ~(Len(t.text) >= 2 /\ t.text[1] = 171 /\ t.text[Len(t.text)] = 171 /\ AllIn(StringAlphabet, Body(t.text)))
                THEN "drift:literal-form"
           ELSE IF ~BigEq(HornerBig(IndicesIn(StringAlphabet, Body(t.text)), 255), HornerBig(IndicesIn(Base27, t.s), 27))
                THEN "drift:literal-value"
           ELSE "ok"
      [] OTHER ->
           IF t.err # "" THEN "violation:dict-raised-" \o t.err
           ELSE IF t.pushed # t.s THEN "violation:dictionary-roundtrip"
           ELSE IF Len(t.text) > Len(t.s) + 2 THEN "violation:longer-than-plain-literal"
           ELSE "ok"

Init == tid \in 1..Len(Batch) /\ phase = "start"
Decide == /\ phase = "start" /\ phase' = "done" /\ tid' = tid
          /\ PrintT(<<"V", tid, Verdict(T)>>)
Next == Decide
====
