---- MODULE MC_ListLaws ----
(***************************************************************************)
(* Sanity of the law predicates (anti-vacuity): for every list <= MaxLen   *)
(* over Vals, definitional results satisfy their law and a perturbed       *)
(* result does not.                                                        *)
(***************************************************************************)
EXTENDS VyListLaws, TLC

CONSTANTS Vals, MaxL
ValsDef == {-1, 0, 1, 2}
Lists == UNION {[1..n -> Vals] : n \in 0..MaxL}
VARIABLES A, B
Init == A \in Lists /\ B \in {<<>>, <<7>>, <<7, 8, 9>>}
Next == FALSE /\ UNCHANGED <<A, B>>
Spec == Init /\ [][Next]_<<A, B>>

T(s) == [l |-> [k \in 1..Len(s) |-> [i |-> s[k]]]]
TT(ss) == [l |-> [k \in 1..Len(ss) |-> T(ss[k])]]
Bump(s) == IF s = <<>> THEN <<99>> ELSE [s EXCEPT ![1] = @ + 1]

RECURSIVE InsSort(_)
Ins(s, x) == LET F[k \in 0..Len(s)] == IF k = 0 THEN 0 ELSE IF s[k] <= x THEN k ELSE F[k - 1]   \* last position with s[k] <= x
                 p == F[Len(s)]
             IN SubSeq(s, 1, p) \o <<x>> \o SubSeq(s, p + 1, Len(s))
InsSort(s) == IF s = <<>> THEN <<>> ELSE Ins(InsSort(SubSeq(s, 1, Len(s) - 1)), s[Len(s)])

SortLaw == Law("sort", A, B, 0, T(InsSort(A))) /\ ~Law("sort", A, B, 0, T(Bump(InsSort(A))))
ReverseLaw == Law("reverse", A, B, 0, T(Rev(A))) /\ ~Law("reverse", A, B, 0, T(Bump(Rev(A))))
UniqLaw == Law("uniquify", A, B, 0, T(FirstOcc(A, {}))) /\ ~Law("uniquify", A, B, 0, T(Bump(FirstOcc(A, {}))))
CumsumLaw == Law("cumsum", A, B, 0, T([k \in 1..Len(A) |-> SumTo(A, k)]))
             /\ (A # <<>> => ~Law("cumsum", A, B, 0, T(Bump([k \in 1..Len(A) |-> SumTo(A, k)]))))
ZipLaw == Law("zip", A, B, 0, TT([k \in 1..MaxLen(A, B) |-> <<At0(A, k), At0(B, k)>>]))
PrefixLaw == Law("prefixes", A, B, 0, TT([k \in 1..Len(A) |-> SubSeq(A, 1, k)]))
             /\ (A # <<>> => ~Law("prefixes", A, B, 0, TT([k \in 1..Len(A) |-> Bump(SubSeq(A, 1, k))])))
MergeLaw == Law("merge", A, B, 0, T(A \o B)) /\ ~Law("merge", A, B, 0, T(Bump(A \o B)))
SumLaw == Law("sum", A, B, 0, [i |-> SumTo(A, Len(A))]) /\ ~Law("sum", A, B, 0, [i |-> SumTo(A, Len(A)) + 1])
CartLaw == Law("cartesian", A, B, 0, TT([k \in 1..(Len(A) * Len(B)) |->
                 <<A[((k - 1) \div Len(B)) + 1], B[((k - 1) % Len(B)) + 1]>>]))
====
