---- MODULE VyNumTheory ----
(***************************************************************************)
(* C17: textbook definitions of the number-theory builtins (trial-division *)
(* primality, divisors, Euclid, recurrences for factorial and binomial,    *)
(* totient by counting / by the product formula over verified primes,      *)
(* repeated division for binary and hexadecimal) and the laws relating an  *)
(* observed result to its argument.  Native integers below 2^31, BigNat    *)
(* for factorials and binomials.                                           *)
(***************************************************************************)
EXTENDS BigNat, FiniteSets

RECURSIVE IsqrtR(_, _)
IsqrtR(n, x) == LET y == (x + n \div x) \div 2 IN IF y >= x THEN x ELSE IsqrtR(n, y)
Isqrt(n) == IF n < 2 THEN n ELSE IsqrtR(n, n)

Divides(d, n) == n % d = 0
IsPrime(p) == p >= 2 /\ \A d \in 2..Isqrt(p) : ~Divides(d, p)
RECURSIVE GCD(_, _)
GCD(a, b) == IF b = 0 THEN a ELSE GCD(b, a % b)
RECURSIVE Prod(_)
Prod(s) == IF s = <<>> THEN 1 ELSE Head(s) * Prod(Tail(s))
RECURSIVE StripAll(_, _)
StripAll(n, p) == IF n % p = 0 THEN StripAll(n \div p, p) ELSE n       \* n > 0, p > 1
RECURSIVE StripPrimes(_, _)
StripPrimes(n, ps) == IF ps = <<>> THEN n ELSE StripPrimes(StripAll(n, Head(ps)), Tail(ps))
RECURSIVE HornerN(_, _)
HornerN(ds, b) == IF ds = <<>> THEN 0 ELSE HornerN(SubSeq(ds, 1, Len(ds) - 1), b) * b + ds[Len(ds)]
RECURSIVE DecDigits(_)
DecDigits(n) == IF n < 10 THEN <<n>> ELSE DecDigits(n \div 10) \o <<n % 10>>
RECURSIVE SumSeq(_)
SumSeq(s) == IF s = <<>> THEN 0 ELSE Head(s) + SumSeq(Tail(s))
RevS(s) == [k \in 1..Len(s) |-> s[Len(s) - k + 1]]
Increasing(s) == \A k \in 1..(Len(s) - 1) : s[k] < s[k + 1]
NonDecreasing(s) == \A k \in 1..(Len(s) - 1) : s[k] <= s[k + 1]
DistinctSeq(s) == \A i, j \in 1..Len(s) : i # j => s[i] # s[j]
InSeq(s, x) == \E k \in 1..Len(s) : s[k] = x
HexVal(c) == IF c \in 48..57 THEN c - 48 ELSE IF c \in 97..102 THEN c - 87 ELSE -1
Totient(n) == Cardinality({k \in 1..n : GCD(n, k) = 1})
B(p) == IF p THEN 1 ELSE 0

RECURSIVE GCDSeq(_)
GCDSeq(s) == IF Len(s) = 1 THEN s[1] ELSE GCD(s[1], GCDSeq(Tail(s)))

(* out: integer (i), integer sequence (s) or BigNat digits; aux: extra logged values *)
NumLaw(name, n, m, oi, os, aux) ==
    CASE name = "isprime" -> oi = B(IsPrime(n))
      [] name = "factors" -> (\A k \in 1..Len(os) : IsPrime(os[k])) /\ Prod(os) = n       \* the multiset; order is not part of the definition
      [] name = "distinct-factors" -> DistinctSeq(os) /\ (\A k \in 1..Len(os) : IsPrime(os[k]) /\ Divides(os[k], n))
                                      /\ StripPrimes(n, os) = 1
      [] name = "divisors" -> DistinctSeq(os) /\ (\A k \in 1..Len(os) : os[k] >= 1 /\ Divides(os[k], n))
                              /\ \A d \in 1..Isqrt(n) : Divides(d, n) => (InSeq(os, d) /\ InSeq(os, n \div d))
      [] name = "gcd" -> oi = GCD(n, m)
      [] name = "gcd-list" -> aux # <<>> /\ oi = GCDSeq(aux)          \* the element on ONE list (eager or lazy): gcd of its items
      [] name = "lcm" -> oi = (IF n = 0 \/ m = 0 THEN 0 ELSE (n * m) \div GCD(n, m))
      [] name = "factorial" ->        \* os = digits of n!, aux = digits of (n-1)!
           IF n = 0 THEN os = <<1>> ELSE BigEq(FromDigits(os), BigMulSmall(FromDigits(aux), n))
      [] name = "binomial" ->         \* Pascal: aux = <<digits C(n-1,m-1), digits C(n-1,m)>>
           IF m = 0 \/ m = n THEN os = <<1>>
           ELSE IF m > n THEN os = <<0>>
           ELSE BigEq(FromDigits(os), BigAdd(FromDigits(aux[1]), FromDigits(aux[2])))
      [] name = "totient-count" -> oi = Totient(n)
      [] name = "totient-formula" ->  \* aux = distinct primes of n (verified here)
           /\ DistinctSeq(aux) /\ (\A k \in 1..Len(aux) : IsPrime(aux[k]) /\ Divides(aux[k], n)) /\ StripPrimes(n, aux) = 1
           /\ n % Prod(aux) = 0                          \* the radical divides n (no overflow: all factors <= n)
           /\ oi = (n \div Prod(aux)) * Prod([k \in 1..Len(aux) |-> aux[k] - 1])
      [] name = "nextprime" -> oi > n /\ IsPrime(oi) /\ \A k \in (n + 1)..(oi - 1) : ~IsPrime(k)
      [] name = "binary" -> (\A k \in 1..Len(os) : os[k] \in {0, 1}) /\ HornerN(os, 2) = n /\ Len(os) >= 1
                            /\ (n > 0 => os[1] = 1)
      [] name = "hex" -> (\A k \in 1..Len(os) : HexVal(os[k]) >= 0) /\ HornerN([k \in 1..Len(os) |-> HexVal(os[k])], 16) = n
                         /\ Len(os) >= 1
      [] name = "range-1-n" -> os = [k \in 1..n |-> k]
      [] name = "range-0-n1" -> os = [k \in 1..n |-> k - 1]
      [] name = "range-0-n" -> os = [k \in 1..(n + 1) |-> k - 1]
      [] name = "range-1-n1" -> os = [k \in 1..(IF n = 0 THEN 0 ELSE n - 1) |-> k]
      [] name = "digitsum" -> oi = SumSeq(DecDigits(n))
      [] name = "digitproduct" -> oi = Prod(DecDigits(n))                        \* product of the decimal digits
      [] name = "reversed-number" -> oi = HornerN([k \in 1..Len(DecDigits(n)) |-> DecDigits(n)[Len(DecDigits(n)) - k + 1]], 10)
      [] name = "product-0-n" -> oi = 0                                           \* 0 * 1 * ... * n
      [] name = "product-1-n" -> oi = Prod([k \in 1..n |-> k])                   \* n!  (n <= 12)
      [] name = "digits" -> os = DecDigits(n)
      [] name = "issquare" -> oi = B(Isqrt(n) * Isqrt(n) = n)
      [] name = "identity" -> oi = n          \* inverse pairs: from-binary . binary, from-hex . hex, root . square, halve . double
      [] name = "square" -> oi = n * n
      [] name = "double" -> oi = 2 * n
      [] OTHER -> FALSE
====
