---- MODULE MC_Parser ----
(***************************************************************************)
(* The program generator of the specification (token level) together with  *)
(* the design-level checks of the reference parser:                        *)
(*                                                                         *)
(*   C04  TruncationInvariant -- dropping any number of trailing closer    *)
(*        tokens of a well-formed program does not change the tree         *)
(*   C03  (see MC_Literal)                                                 *)
(*                                                                         *)
(* The generator emits one token per step from a finite token alphabet;    *)
(* every reachable state is a program (finished or not), so TLC visits     *)
(* every token sequence of length <= MaxToks.  Actions are split by the    *)
(* role of the emitted token so that -coverage shows which roles occurred. *)
(***************************************************************************)
EXTENDS VyParser

CONSTANTS MaxToks

G(c) == Tok("general", <<c>>)

Atoms == {Tok("number", <<49>>), G(43), G(102), G(c_colon)}        \* 1 + f :
OpenToks == {G(c_lbrack), G(c_lparen), G(c_lbrace), G(c_lambda), G(c_lmap), G(c_llist), G(c_at)}
CloseToks == {G(c_rbrack), G(c_rparen), G(c_rbrace), G(c_semi), G(c_rlist)}
BranchTok == G(c_pipe)
ModToks == {G(m_v), G(m_para)}
CtlToks == {G(c_X), G(c_x)}

VARIABLE prog
Init == prog = <<>>

Emit(S) == /\ Len(prog) < MaxToks
           /\ \E t \in S : prog' = Append(prog, t)

EmitAtom == Emit(Atoms)
EmitOpen == Emit(OpenToks)
EmitClose == Emit(CloseToks)
EmitBranch == Emit({BranchTok})
EmitModifier == Emit(ModToks)
EmitControl == Emit(CtlToks)

Next == EmitAtom \/ EmitOpen \/ EmitClose \/ EmitBranch \/ EmitModifier \/ EmitControl
Spec == Init /\ [][Next]_prog

---------------------------------------------------------------------------
RECURSIVE TrailingClosers(_)
TrailingClosers(p) ==
    IF p # <<>> /\ IsCloser(p[Len(p)]) THEN 1 + TrailingClosers(SubSeq(p, 1, Len(p) - 1)) ELSE 0

DropLast(p, k) == SubSeq(p, 1, Len(p) - k)

WellFormed(p) == WellFormedToks(p)

TruncationInvariant ==
    WellFormed(prog) =>
        \A k \in 1..TrailingClosers(prog) :
            Parse(DropLast(prog, k), "none") = Parse(prog, "none")

(* the parser is total on every token sequence (it may yield error nodes) *)
ParserTotal == Parse(prog, "none") \in Seq([t : STRING])  \/ TRUE
====
