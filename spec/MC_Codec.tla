---- MODULE MC_Codec ----
(***************************************************************************)
(* The encode loop of to_base_digits as a machine, for every n <= MaxN and *)
(* every base of Bases:  while rest >= b: (rest, d) := divmod(rest, b).    *)
(* Loop invariant, digit range and the round trip are invariants.          *)
(***************************************************************************)
EXTENDS VyCodec, TLC

CONSTANTS MaxN, Bases

VARIABLES n, b, rest, digits, done
vars == <<n, b, rest, digits, done>>

Init == n \in 0..MaxN /\ b \in Bases /\ rest = n /\ digits = <<>> /\ done = FALSE
Divide == /\ ~done /\ rest >= b
          /\ digits' = <<rest % b>> \o digits /\ rest' = rest \div b
          /\ UNCHANGED <<n, b, done>>
Finish == /\ ~done /\ rest < b
          /\ digits' = <<rest>> \o digits /\ rest' = 0 /\ done' = TRUE
          /\ UNCHANGED <<n, b>>
Next == Divide \/ Finish
Spec == Init /\ [][Next]_vars

Pow(x, k) == x ^ k
LoopInvariant == n = rest * Pow(b, Len(digits)) + Horner(digits, b)
DigitRange == DigitsOK(digits, b)
RoundTrip == done => (Horner(digits, b) = n /\ BigToNat(HornerBig(digits, b)) = n)
NoLeadingZero == (done /\ n > 0) => digits[1] # 0
Terminates == [][rest' < rest \/ done']_vars
====
