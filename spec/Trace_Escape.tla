---- MODULE Trace_Escape ----
(***************************************************************************)
(* C18 on the implementation.  For a program text with a payload in one    *)
(* slot and the same text with a benign payload, the harness logs          *)
(*   ea / eb        "" or the exception transpile raised                   *)
(*   ca / cb        whether the code compiled                              *)
(*   sa / sb        the AST of the code in preorder (node type names,      *)
(*                  constants dropped, VAR_x / _lambda_x identifiers       *)
(*                  reduced to their prefix)                               *)
(*   idents         every identifier of code a that is not in the          *)
(*                  template vocabulary of the working tree (code points)  *)
(* TLC decides applicability with the reference lexer (the payload stays   *)
(* inside one literal token / one name) and then                           *)
(*   Prop_C18:  sa = sb   and every listed identifier is a fixed prefix    *)
(*              followed by [A-Za-z0-9_]*                                   *)
(* Code that does not compile executes nothing (that is C02's business).   *)
(***************************************************************************)
EXTENDS VyEscape, VyParser, Json, IOUtils, TLC, TLCExt

BatchFile == JsonDeserialize(IOEnv.TRACE_FILE)
ASSUME TLCSet(7, BatchFile)
Batch == TLCGet(7)

VARIABLES tid, phase
T == Batch[tid]

Prefixes == {<<86, 65, 82, 95>>,                                   \* VAR_
             <<95, 108, 97, 109, 98, 100, 97, 95>>}                 \* _lambda_
HasPrefix(s, p) == Len(s) >= Len(p) /\ SubSeq(s, 1, Len(p)) = p
IdentOK(s) == \E p \in Prefixes : HasPrefix(s, p) /\ IsIdentTail(SubSeq(s, Len(p) + 1, Len(s)))

KindsOf(toks) == [i \in 1..Len(toks) |-> toks[i].k]

(* same token kinds, and general tokens are identical: the two texts differ only inside literals / names *)
SameSkeleton(A, B) ==
    /\ Len(A) = Len(B)
    /\ \A i \in 1..Len(A) : A[i].k = B[i].k /\ (A[i].k = "general" => A[i].v = B[i].v)

LexOf(t, x) == IF "vflag" \in DOMAIN t /\ t.vflag THEN LexV(x) ELSE Lex(x)

Verdict(t) ==
    IF t.ea # "" THEN "skip:transpile-raised"
    \* (for code that does not compile the identifiers are taken from the name sites of the text)
    ELSE IF \E i \in 1..Len(t.idents) : ~IdentOK(t.idents[i]) THEN "violation:program-text-in-identifier"
    ELSE IF ~t.ca /\ ~t.raw /\ t.eb = "" /\ t.cb /\ SameSkeleton(LexOf(t, t.a), LexOf(t, t.b)) /\ t.ta # t.tb
         \* the benign payload compiles, this one (same Vyxal skeleton) changes Python's TOKEN structure:
         \* program text has left its literal (whether or not the result happens to compile)
         THEN "violation:payload-changes-python-tokens"
    ELSE IF ~t.ca THEN "skip:does-not-compile"
    ELSE IF \E i \in 1..Len(t.idents) : ~IdentOK(t.idents[i]) THEN "violation:program-text-in-identifier"
    ELSE IF t.raw THEN "ok"
    ELSE IF ~SameSkeleton(LexOf(t, t.a), LexOf(t, t.b)) THEN "skip:payload-leaves-the-slot"
    ELSE IF t.eb # "" \/ ~t.cb THEN "skip:benign-does-not-compile"
    ELSE IF t.sa # t.sb THEN "violation:payload-changes-python-shape"
    ELSE "ok"

Init == tid \in 1..Len(Batch) /\ phase = "start"
Decide == /\ phase = "start" /\ phase' = "done" /\ tid' = tid
          /\ PrintT(<<"V", tid, Verdict(T)>>)
Next == Decide
====
