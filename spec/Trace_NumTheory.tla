---- MODULE Trace_NumTheory ----
(***************************************************************************)
(* C17 on the implementation: one trace = one argument n (and m) with the  *)
(* logged results of all builtins:  calls = <<[law, n, m, oi, os, aux, err]>>*)
(* Prop_C17: NumLaw(law, n, m, oi, os, aux) for every call.                *)
(***************************************************************************)
EXTENDS VyNumTheory, Json, IOUtils, TLC, TLCExt

BatchFile == JsonDeserialize(IOEnv.TRACE_FILE)
ASSUME TLCSet(7, BatchFile)
Batch == TLCGet(7)

VARIABLES tid, phase
T == Batch[tid]

CallVerdict(c) ==
    IF c.err # "" THEN "violation:" \o c.law \o "-raised-" \o c.err
    ELSE IF ~NumLaw(c.law, c.n, c.m, c.oi, c.os, c.aux) THEN "violation:" \o c.law
    ELSE "ok"
RECURSIVE FirstBad(_, _)
FirstBad(cs, i) == IF i > Len(cs) THEN "ok"
                   ELSE IF CallVerdict(cs[i]) # "ok" THEN CallVerdict(cs[i]) ELSE FirstBad(cs, i + 1)

Init == tid \in 1..Len(Batch) /\ phase = "start"
Decide == /\ phase = "start" /\ phase' = "done" /\ tid' = tid
          /\ PrintT(<<"V", tid, FirstBad(T.calls, 1)>>)
Next == Decide
====
