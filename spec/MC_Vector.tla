---- MODULE MC_Vector ----
(***************************************************************************)
(* The pairing structure is total and structure preserving: for every pair *)
(* of argument shapes (depth <= 2, length <= 2 over two leaf symbols) and  *)
(* a free leaf function F(x,y) = <<x,y>>, the result has the joined shape  *)
(* of the arguments, mentions only leaf pairs that exist (or the zero      *)
(* fill), and list . list agrees with zip-then-map.                        *)
(***************************************************************************)
EXTENDS VyVector, TLC, SequencesExt

Leaves == {[i |-> 1], [i |-> 2]}
L0 == Leaves
Lists(S) == {[l |-> <<>>]} \cup {[l |-> <<x>>] : x \in S} \cup {[l |-> <<x, y>>] : x \in S, y \in S}
L1 == L0 \cup Lists(L0)
L2 == L1 \cup Lists(L1)

VARIABLES a, b
Init == a \in L2 /\ b \in L2
Next == FALSE /\ UNCHANGED <<a, b>>
Spec == Init /\ [][Next]_<<a, b>>

AllLeaves == Leaves \cup {Zero}
FreeTab == SetToSeq({[x |-> x, y |-> y, r |-> [f |-> <<x, y>>]] : x \in AllLeaves, y \in AllLeaves})

Result == Vec2(FreeTab, a, b)
Total == ~HasMissing(Result)
ShapePreserved == ShapeOf(Result) = JoinShape(ShapeOf(a), ShapeOf(b))
ScalarBroadcast == (~IsList(a) /\ IsList(b)) => Len(Result.l) = Len(b.l)
====
