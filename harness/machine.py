"""Shared driver for the properties decided on VyMachine traces (C01, C12, C11, C09 ...)."""
from __future__ import annotations

from . import common, gen, instrument, tlc

CORE_ATOMS = list("+-*›‹Nd:D_$\"W!^=<>LhtJwf∑ṘUsɾʁn?,…₴£¥¼⅛¾MFR†ṡ¬∧∨ḃ")
SAFE_ATOMS = list("+-*›‹Nd:D_$\"W!^=<>wɾʁn?,…₴£¥⅛¾†¬∧∨ḃ∑LhtJfṘU")


def observe(case):
    text, flags, inputs = case[:3]
    online = len(case) > 3 and case[3]
    opts = case[4] if len(case) > 4 else {}
    import sys

    old = sys.getrecursionlimit()
    try:
        if "reclimit" in opts:
            sys.setrecursionlimit(opts["reclimit"])
        t = instrument.run_traced(text, flags, inputs, online=online, budget=opts.get("budget", 200))
        t["mustfail"] = bool(opts.get("mustfail", False))
        if "twin" in opts:
            tw = instrument.run_traced(opts["twin"], flags, inputs, online=online, budget=opts.get("budget", 200))
            f = tw["ev"][-1]
            t["twin"] = {"stack": f["stack"], "out": f["out"], "raised": f["raised"]}
        return t
    except BaseException as e:  # noqa: BLE001  harness problem: report as such
        return {"text": common.cps(text), "flags": sorted(set(flags)), "inputs": [],
                "online": online, "mustfail": False,
                # a failure of the harness itself is never a verdict about the implementation: the run is not evaluated
                "harness_error": type(e).__name__,
                "ev": [{"ev": "Final", "stack": [], "out": [], "d": [0, 0, 0, 0], "raised": "budget",
                        "ctx": {"x": "?"}, "host": 0, "rec2": 0, "canary": 0}]}
    finally:
        sys.setrecursionlimit(old)


def timed_out(case):
    text, flags, inputs = case[:3]
    return {"text": common.cps(text), "flags": sorted(set(flags)), "inputs": [], "online": len(case) > 3 and case[3], "mustfail": False,
            "ev": [{"ev": "Final", "stack": [], "out": [], "d": [0, 0, 0, 0], "raised": "timeout", "ctx": {"x": "?"},
                    "host": 0, "rec2": 0, "canary": 0}]}


def validate(scratch, cases, chunk=600):
    obs = common.pool_map(observe, cases, initfn=instrument.install, hard_timeout=15, on_timeout=timed_out)
    verdicts, st = tlc.validate(scratch, "Trace_Machine", obs, cfg="Trace_Machine.cfg", chunk=chunk, xss="1g")
    w = st["extra"].get("W", [None] * len(cases))
    return obs, verdicts, w, st


INPUT_SETS = [[], [3], [2, [1, 2]]]
FLAG_SETS = ["", "O", "o", "j", "s", "W", "H", "M", "m"]
