SPECIFICATION Spec
CONSTANTS
  MaxNum = 12
  MaxDen = 6
INVARIANT Accepts
INVARIANT Rejects
INVARIANT WrongWitnessRejected
INVARIANT Identities
CHECK_DEADLOCK FALSE
