"""C17 Number-theory builtins agree with their definitions.

Spec:  VyNumTheory (definitions + laws), MC_NumTheory (the definitions agree
       with each other on 1..400: counting totient = product formula, divisor
       pairing, gcd*lcm, Isqrt, digits).
Bind:  for every n of the tier's domain (and pairs n, m) the builtins are
       called and TLC judges every result with its law; factorial / binomial
       are checked by their recurrences on consecutive logged values (BigNat).
"""
from __future__ import annotations

import time

from . import common, tlc

PID = "C17"


def ival(v):
    import sympy

    if isinstance(v, bool):
        raise TypeError("bool")
    if isinstance(v, int):
        return v
    if isinstance(v, sympy.Integer):
        return int(v)
    raise TypeError(type(v).__name__)


def seq(v):
    from vyxal.LazyList import LazyList

    if isinstance(v, LazyList):
        v = v.listify()
    return [ival(x) for x in v]


def digs(n):
    return [int(c) for c in str(int(n))]


def observe(case):
    import vyxal.elements as E
    from vyxal.context import Context

    ctx = Context()
    kind = case[0]
    calls = []

    def add(law, n, m, fn, out="i", aux=None):
        ev = {"law": law, "n": n, "m": m, "oi": 0, "os": [], "aux": aux if aux is not None else [], "err": ""}
        try:
            r = fn()
            if out == "i":
                ev["oi"] = ival(r)
                if abs(ev["oi"]) >= 2 ** 31:
                    ev["err"] = "result-too-large-for-this-law"
            elif out == "s":
                ev["os"] = seq(r)
            elif out == "d":
                ev["os"] = digs(ival(r))
            elif out == "t":
                ev["os"] = [ord(c) for c in r]
        except common.CaseTimeout:
            ev["err"] = "hang"
        except Exception as e:  # noqa: BLE001
            ev["err"] = type(e).__name__
        calls.append(ev)

    if kind == "p":          # primality alone, over a wider exhaustive range
        n = case[1]
        add("isprime", n, 0, lambda: E.is_prime(n, ctx))
        add("nextprime", n, 0, lambda: E.next_prime(n, ctx))
        return {"calls": calls}
    if kind == "again":
        # history independence: the battery, then every other one-argument element of the table on the same
        # number (results ignored), then the battery again -- a builtin must not depend on what ran before
        first = observe(("n", case[1], case[2]))["calls"]
        for key, fn in neighbours():
            try:
                common.with_alarm(lambda _: fn(case[1], ctx=ctx), None, 2)
            except BaseException:  # noqa: BLE001
                pass
        # ... and the battery itself on much larger and on smaller arguments (results dropped): an answer must not
        # depend on which OTHER arguments were asked before
        for other in (case[1] * 7 + 5000, case[1] + 3000, case[1] * 13 + 40000, max(case[1] - 1, 0)):
            observe(("n", other, case[2]))
        return {"calls": first + observe(("n", case[1], case[2]))["calls"]}
    if kind == "n":
        n = case[1]
        add("isprime", n, 0, lambda: E.is_prime(n, ctx))
        add("nextprime", n, 0, lambda: E.next_prime(n, ctx))
        add("binary", n, 0, lambda: E.vy_bin(n, ctx), "s")
        add("hex", n, 0, lambda: E.vy_hex(n, ctx), "t")
        add("identity", n, 0, lambda: E.vy_int(E.vy_bin(n, ctx), 2))
        add("identity", n, 0, lambda: E.vy_hex(E.vy_hex(n, ctx), ctx))
        add("identity", n, 0, lambda: E.square_root(E.square(n, ctx), ctx)) if n < 40000 else None
        add("identity", n, 0, lambda: E.halve(E.multiply(n, 2, ctx), ctx))
        add("square", n, 0, lambda: E.square(n, ctx)) if n < 40000 else None
        add("digitsum", n, 0, lambda: E.vy_sum(n, ctx))
        if n < 10 ** 9:
            add("reversed-number", n, 0, lambda: E.reverse(n, ctx))
        if n < 10 ** 6 or "0" in str(n):
            add("digitproduct", n, 0, lambda: E.product(E.deep_flatten(n, ctx), ctx))
        if n <= 300:
            add("product-0-n", n, 0, lambda: E.product(E.inclusive_zero_range(n, ctx), ctx))
        if 1 <= n <= 12:
            add("product-1-n", n, 0, lambda: E.product(E.inclusive_one_range(n, ctx), ctx))
        add("digits", n, 0, lambda: E.deep_flatten(n, ctx), "s")
        add("issquare", n, 0, lambda: E.is_square(n, ctx))
        if n <= 400 and n % 3 == 0:
            # the explicit range builtins are not the implicit ranges: flags M / m / Ṁ do not move their ends
            cM, cm = Context(), Context()
            cM.range_start = 0
            cm.range_end = 0
            for cx in (cM, cm):
                add("range-1-n", n, 0, lambda: E.inclusive_one_range(n, cx), "s")
                add("range-0-n1", n, 0, lambda: E.exclusive_zero_range(n, cx), "s")
                add("range-0-n", n, 0, lambda: E.inclusive_zero_range(n, cx), "s")
                add("range-1-n1", n, 0, lambda: E.exclusive_one_range(n, cx), "s")
        if n <= 400:
            add("range-1-n", n, 0, lambda: E.inclusive_one_range(n, ctx), "s")
            add("range-0-n1", n, 0, lambda: E.exclusive_zero_range(n, ctx), "s")
            add("range-0-n", n, 0, lambda: E.inclusive_zero_range(n, ctx), "s")
            add("range-1-n1", n, 0, lambda: E.exclusive_one_range(n, ctx), "s")
        if n >= 1:
            add("factors", n, 0, lambda: E.prime_factors(n, ctx), "s")
            add("distinct-factors", n, 0, lambda: E.prime_factorisation(n, ctx), "s")
            add("divisors", n, 0, lambda: E.divisors_or_prefixes(n, ctx), "s")
            try:
                primes = seq(E.prime_factorisation(n, ctx))
            except Exception:  # noqa: BLE001
                primes = []
            if n <= 300:
                add("totient-count", n, 0, lambda: E.totient(n, ctx))
            add("totient-formula", n, 0, lambda: E.totient(n, ctx), "i", primes)
        if n <= (150 if case[2] == "quick" else 600):
            prev = digs(E.factorial(n - 1, ctx)) if n >= 1 else [1]
            add("factorial", n, 0, lambda: E.factorial(n, ctx), "d", prev)
    elif kind == "pair":
        n, m = case[1], case[2]
        add("gcd", n, m, lambda: E.vy_gcd(n, m, ctx))
        add("lcm", n, m, lambda: E.lowest_common_multiple(n, m, ctx))
        if n >= 1 and m >= 1 and (n + m) % 2 == 0:
            # the gcd ELEMENT on one list (its template decides between the monadic and the dyadic form)
            from vyxal.LazyList import LazyList

            from . import runner
            items = [n * 2, m * 2, (n + m) * 2]

            def gcd_elem(lazy):
                ns = runner.fresh_ns(stack=[5, LazyList(iter(list(items))) if lazy else list(items)])
                exec(E.elements["ġ"][0], ns)
                if len(ns["stack"]) != 2:
                    raise ValueError("stack")
                return ns["stack"][-1]
            add("gcd-list", n, m, lambda: gcd_elem(False), "i", items)
            add("gcd-list", n, m, lambda: gcd_elem(True), "i", items)
        if n <= 60 and m <= 60:       # also m > n: the binomial coefficient is 0 there
            a1 = digs(E.n_choose_r(n - 1, m - 1, ctx)) if n >= 1 and 1 <= m <= n else [0]
            a2 = digs(E.n_choose_r(n - 1, m, ctx)) if n >= 1 and m <= n else [0]
            add("binomial", n, m, lambda: E.n_choose_r(n, m, ctx), "d", [a1, a2])
    return {"calls": [c for c in calls if c is not None]}


_NEIGH = []


def neighbours():
    """every one-argument element function of the table, minus the ones that print, read, execute or sleep"""
    if not _NEIGH:
        import vyxal.elements as E

        from . import c08, extract

        elems, _ = extract.element_table()
        seen = set()
        for e in elems:
            if e["arity"] == 1 and e["fn"] and e["fn"] not in seen and hasattr(E, e["fn"]):
                seen.add(e["fn"])
                if e["key"] in ("Ė", "E", "†", "Q", ",", "…", "₴", "¨,", "¨…", "¨U", "øḊ") or c08.uses_randomness(e["fn"]):
                    continue
                _NEIGH.append((e["key"], getattr(E, e["fn"])))
    return _NEIGH


def main(tier):
    t0 = time.time()
    rng = common.rng(17)
    V = common.Verdicts(PID)
    common.import_repo()
    top = 2000 if tier == "quick" else 20000
    cs = [("n", n, tier) for n in range(0, top + 1)]
    lim = 60 if tier == "quick" else 300
    cs += [("pair", n, m) for n in range(0, lim + 1) for m in range(0, lim + 1)]
    for _ in range(300 if tier == "quick" else 3000):
        cs.append(("n", rng.randint(top, 10 ** 9), tier))
    cs += [("p", n, tier) for n in range(top + 1, (20000 if tier == "quick" else 200000) + 1)]
    cs += [("again", n, tier) for n in (range(1, 400, 7) if tier == "quick" else range(1, 3000, 3))]
    cs += [("again", n, tier) for n in (1030, 1100, 1500, 2000, 3000, 4093, 6000, 9000, 20000, 50000, 65000, 70001, 10 ** 6 + 3)]
    with common.Scratch(PID) as s:
        mc = tlc.model_check(s, "MC_NumTheory", cfg="MC_NumTheory", workers=16)
        if not mc["ok"]:
            V.add("spec:MC_NumTheory:" + str(mc["violated"]), {"trace": tlc.counterexample(mc["out"])})
        obs = common.pool_map(observe, cs, initfn=common.import_repo, hard_timeout=120, on_timeout=lambda c: {"calls": []})
        common.retry_hangs(cs, obs, observe)      # a watchdog firing under load is re-observed alone, with longer alarms
        verdicts, st = tlc.validate(s, "Trace_NumTheory", obs, cfg="Trace_NumTheory.cfg", chunk=400)
    tally = {}
    ncalls = sum(len(o["calls"]) for o in obs)
    for c, v in zip(cs, verdicts):
        tally[v] = tally.get(v, 0) + 1
        if v.startswith("violation"):
            V.add(f"{v.split(':', 1)[1]}:n={c[1]}" + (f":m={c[2]}" if c[0] == "pair" else ""), {"case": list(c), "verdict": v})
    rc = V.finish()
    common.write_evidence(
        PID, tier, t0,
        {
            "states": mc["distinct"], "transitions": mc["generated"], "traces_validated_against_impl": len(cs),
            "samples": [{"case": list(c)[:3], "verdict": v} for c, v in list(zip(cs, verdicts))[:: max(1, len(cs) // 12)][:12]],
            "evaluations": ncalls, "distinct_nontrivial": len(cs),
            "rule": f"every n in 0..{top} (primality, next prime, binary, hex, inverse pairs, digit operations, square test, "
                    f"ranges to 400, prime factors, distinct primes, divisors, totient by counting to 300 and by formula, factorial "
                    f"by recurrence); every pair n, m <= {lim} (gcd, lcm, binomial by Pascal's rule to 60); random n to 10^9",
            "verdicts": tally, "mc": {"module": "MC_NumTheory", "distinct": mc["distinct"]},
            "trace_tlc": {k: st[k] for k in st if k != "extra"}, "exhaustive": False,
        },
        ["definitions in spec/VyNumTheory.tla; factorial and binomial are checked by their recurrences on logged neighbours",
         "prime factors / totient / divisors are quantified over n >= 1; transcribed-function form"],
        len(V.violations),
    )
    print(f"C17 {tier}: {len(cs)} arguments / {ncalls} calls, verdicts {tally}, {time.time() - t0:.1f}s")
    return rc
