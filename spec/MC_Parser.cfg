SPECIFICATION Spec
CONSTANTS
  MaxToks = 5
INVARIANT TruncationInvariant
CHECK_DEADLOCK FALSE
