---- MODULE MC_Arith ----
(***************************************************************************)
(* Sanity of VyArith/BigInt against TLC's native integers, exhaustively on *)
(* the small domain: the environment picks two rationals p/q with          *)
(* |p| <= MaxNum, 1 <= q <= MaxDen and an operator; the natively computed  *)
(* exact result satisfies ArithOK, a perturbed one does not (the predicate *)
(* is not vacuous), and the field identities hold.                         *)
(***************************************************************************)
EXTENDS VyArith, TLC

CONSTANTS MaxNum, MaxDen
Rats == {<<p, q>> : p \in (-MaxNum)..MaxNum, q \in 1..MaxDen}
Ops == {"add", "sub", "mul", "div", "idiv", "mod"}

VARIABLES a, b, op
Init == a \in Rats /\ b \in Rats /\ op \in Ops
Next == FALSE /\ UNCHANGED <<a, b, op>>
Spec == Init /\ [][Next]_<<a, b, op>>

R(x) == Rat(SOfInt(x[1]), BigOfNat(x[2]))
Sgn(x) == IF x < 0 THEN -1 ELSE 1
AbsI(x) == IF x < 0 THEN -x ELSE x
(* native floor of n/d, d > 0 *)
FloorDiv(n, d) == IF n >= 0 THEN n \div d ELSE -((-n + d - 1) \div d)

Native ==        \* <<numerator, denominator>> of the exact result, denominator > 0
    CASE op = "add" -> <<a[1] * b[2] + b[1] * a[2], a[2] * b[2]>>
      [] op = "sub" -> <<a[1] * b[2] - b[1] * a[2], a[2] * b[2]>>
      [] op = "mul" -> <<a[1] * b[1], a[2] * b[2]>>
      [] op = "div" -> IF b[1] = 0 THEN <<0, 1>> ELSE <<Sgn(b[1]) * a[1] * b[2], a[2] * AbsI(b[1])>>
      [] op = "idiv" -> IF b[1] = 0 THEN <<0, 1>>
                        ELSE <<FloorDiv(Sgn(b[1]) * a[1] * b[2], a[2] * AbsI(b[1])), 1>>
      [] OTHER -> IF b[1] = 0 THEN <<0, 1>>
                  ELSE LET k == FloorDiv(Sgn(b[1]) * a[1] * b[2], a[2] * AbsI(b[1]))
                       IN <<a[1] * b[2] - k * b[1] * a[2], a[2] * b[2]>>

Witness == IF b[1] = 0 THEN <<0, 1>> ELSE <<FloorDiv(Sgn(b[1]) * a[1] * b[2], a[2] * AbsI(b[1])), 1>>
Accepts == ArithOK(op, R(a), R(b), R(Native), R(Witness))
Rejects == (op # "mod" \/ b[1] # 0) => ~ArithOK(op, R(a), R(b), R(<<Native[1] + 1, Native[2]>>), R(Witness))
WrongWitnessRejected == (op = "mod" /\ b[1] # 0) => ~ArithOK(op, R(a), R(b), R(Native), R(<<Witness[1] + 1, 1>>))
(* a/b*b = a ; a+b-b = a ; (a idiv b)*b + a mod b = a *)
Identities ==
    /\ (b[1] # 0 => RatEqS(RatMul(RatDiv(R(a), R(b)), R(b)), R(a)))
    /\ RatEqS(RatSub(RatAdd(R(a), R(b)), R(b)), R(a))
====
