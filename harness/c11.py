"""C11 Input is a cyclic stream shared by explicit and implicit reads.

Spec:  MC_Input (VyInput: every input list <= 3 and every read history up to
       the bound; StreamIsCyclic, CursorIsCount, InnerReadsAreArguments).
Bind:  spec -> code: histories over VyInput's actions are compiled to Vyxal
       programs (the history IS the test), run with the outermost get_input
       logged; code -> spec: Trace_Input replays the history on VyInput and
       compares the logged reads and the printed values.
"""
from __future__ import annotations

import itertools
import time

from . import common, instrument, runner, tlc

PID = "C11"
# an argument >= 100 stands for a two-item LIST: 156 is ⟨5|6⟩ (a call whose single argument is itself a list)
# ... and 99 for the EMPTY list; 0 is an ordinary value (falsy values must be delivered like any other)
ARGS = [[], [7], [7, 8], [7, 8, 9], [156], [4, 123], [0], [0, 7], [8, 0], [99], [99, 0]]


def lit(x):
    return "⟨⟩" if x == 99 else f"⟨{(x - 100) // 10}|{x % 10}⟩" if x >= 100 else f"{x} "


def compile_history(hist):
    out = []
    stack = []  # open scopes: ("L"|"F", closing text)
    fcount = 0
    for h in hist:
        a = h["a"]
        if a == "E":
            out.append("?,")
        elif a == "P":
            out.append({1: ",", 2: "\",", 3: "\"\","}[h["k"]])
        elif a == "L":
            # `miss`: that many of the k arguments are NOT pushed -- the call takes them from the caller's input
            k = len(h["args"]) + h.get("miss", 0)
            out.append("".join(lit(x) for x in h["args"]) + f"λ{k}|" + "_" * k)
            stack.append(";†_")
        elif a == "F":
            k = len(h["args"]) + h.get("miss", 0)
            # distinct names: a nested definition of the same name would make VAR_f local in the
            # enclosing function body (Python scoping of the transpiled code), which is not this property
            name = "fghjmpqrstuvwyzb"[fcount % 16] + ("" if fcount < 16 else "abcdefgh"[(fcount // 16) % 8])
            fcount += 1
            out.append(f"@{name}:{k}|" + "_" * k)
            stack.append(";" + "".join(lit(x) for x in h["args"]) + f"@{name};")
        elif a == "X":
            # early: the scope is left through the break element right before its end
            out.append(("X" if h.get("early") else "") + stack.pop())
    while stack:
        out.append(stack.pop())
    return "".join(out)


def close_history(hist):
    """append the Leave actions the compiled program performs at its end"""
    d = 0
    for h in hist:
        d += 1 if h["a"] in ("L", "F") else -1 if h["a"] == "X" else 0
    return hist + [{"a": "X"}] * d


_reads = []
_depth = [0]
_patched = [False]


def patch_get_input():
    if _patched[0]:
        return
    instrument.install()
    import vyxal.elements as E
    import vyxal.helpers as H
    import vyxal.main as M

    orig = H.get_input

    def get_input(ctx):
        outer = _depth[0] == 0
        kind = "explicit" if ctx.use_top_input else "implicit"
        depth = len(ctx.inputs)
        _depth[0] += 1
        try:
            v = orig(ctx)
        finally:
            _depth[0] -= 1
        if outer:
            j = runner.value_json(v)
            code = j["i"] if "i" in j else -999
            if "l" in j and len(j["l"]) == 0:
                code = 99
            if "l" in j and len(j["l"]) == 2 and all("i" in x and 0 <= x["i"] <= 9 for x in j["l"]):
                code = 100 + 10 * j["l"][0]["i"] + j["l"][1]["i"]
            _reads.append({"kind": kind, "depth": depth, "v": code})
        return v

    H.get_input = get_input
    for mod in (E, M):
        if getattr(mod, "get_input", None) is orig:
            mod.get_input = get_input
    _patched[0] = True


def observe(case):
    inputs, hist = case
    patch_get_input()
    text = compile_history(hist)
    _reads.clear()
    _depth[0] = 0
    t = instrument.run_traced(text, "O", inputs)
    fin = t["ev"][-1]
    return {"inputs": list(inputs), "hist": close_history(hist), "text": common.cps(text), "out": fin["out"],
            "raised": fin["raised"], "reads": list(_reads)}


def histories(maxlen, rng=None, n=None, maxdepth=2, full_upto=2):
    acts = [{"a": "E"}] + [{"a": "P", "k": k} for k in (1, 2, 3)] + \
           [{"a": "L", "args": a} for a in ARGS] + [{"a": "F", "args": a} for a in ARGS] + [{"a": "X"}, {"a": "X", "early": True}] + \
           [{"a": k, "args": a, "miss": m} for k in ("L", "F") for a in ([], [7], [0, 8]) for m in (1, 2)]

    def ok(h):
        d = 0
        for x in h:
            if x["a"] in ("L", "F"):
                d += 1
                if d > maxdepth:
                    return False
            elif x["a"] == "X":
                d -= 1
                if d < 0:
                    return False
        return True

    # exhaustive enumeration: every action up to length full_upto; beyond that the core actions (reads, calls
    # with 0-2 plain arguments, both ways of leaving) -- the other argument shapes are met in the random histories
    core = [a for a in acts if a["a"] in ("E", "P", "X") or (a.get("args") in ([], [7], [7, 8], [0]) and "miss" not in a)] + \
           [a for a in acts if a.get("miss") == 1 and a.get("args") == [7]]
    if rng is None:
        for L in range(0, maxlen + 1):
            for h in itertools.product(acts if L <= full_upto else core, repeat=L):
                if ok(h):
                    yield list(h)
    else:
        for _ in range(n):
            L = rng.randint(1, maxlen)
            h = []
            d = 0
            for _ in range(L):
                c = [a for a in acts if not (a["a"] == "X" and d == 0) and not (a["a"] in ("L", "F") and d >= maxdepth)]
                a = rng.choice(c)
                d += 1 if a["a"] in ("L", "F") else -1 if a["a"] == "X" else 0
                h.append(a)
            yield h


def main(tier):
    t0 = time.time()
    rng = common.rng(11)
    V = common.Verdicts(PID)
    inputs_all = [list(t) for n in range(0, 4) for t in itertools.product((1, 2, 3), repeat=n)] + \
                 [[0], [5, 0, 7], [0, 0], [0, 4], [3, 0]]
    cs = []
    exh = 3 if tier == "quick" else 4
    for h in histories(exh):
        for inp in ([], [1], [1, 2], [3, 1, 2], [5, 0, 7]):
            cs.append((inp, h))
    for h in histories(12, rng, 2500 if tier == "quick" else 50000, maxdepth=3):
        cs.append((rng.choice(inputs_all + [[5, 6, 7, 8]]), h))
    with common.Scratch(PID) as s:
        mc = tlc.model_check(s, "MC_Input", cfg="MC_Input_quick" if tier == "quick" else "MC_Input", workers=16)
        if not mc["ok"]:
            V.add("spec:MC_Input:" + str(mc["violated"]), {"trace": tlc.counterexample(mc["out"])})
        obs = common.pool_map(observe, cs, initfn=patch_get_input, hard_timeout=20,
                              on_timeout=lambda c: {"inputs": c[0], "hist": close_history(c[1]), "text": [], "out": [],
                                                    "raised": "timeout", "reads": []})
        verdicts, st = tlc.validate(s, "Trace_Input", obs, cfg="Trace_Input.cfg", chunk=3000)
        # the input rules of the full machine (VyMachine: pops that fall back on the inputs, scopes of lambdas and
        # functions, calls that pass their arguments explicitly vs. calls that pop a stored arity): programs in
        # which reads follow such calls, validated in lock-step like C01's
        from . import machine
        mprogs = []
        for lam in ["λ1+;", "λ+;", "λ_?;", "λ?+;", "λ2|+;", "λ0|?;", "λ:+;"]:
            for sar in ["", "2*", "0*", "3*", "1*"]:
                for use in ["M", "F", "†", "†_", ":†$†", "M∑", "vd_", "ṡ", "R", "ƒ+_"]:
                    for src in ["⟨1|2⟩", "", "5 "]:
                        for tail in [",?,?,", ",,", "?,+,"]:
                            mprogs.append(src + lam + sar + use + tail)
        mprogs = list(dict.fromkeys(mprogs))
        if tier == "quick":
            mprogs = mprogs[:: 3]
        mcs = [(p, "", inp) for p in mprogs for inp in ([10, 20, 30], [], [4])]
        # over (the one element that asks for an input by itself) on stacks of 0, 1, 2 entries, at top level and in calls
        for p in ["Ȯ,?,", "5Ȯ,?,", "5 6Ȯ,?,", "Ȯ Ȯ,,?,", "5Ȯ Ȯ,,", "7λȮ,;†?,", "λȮ;†,?,", "3 4λ2|Ȯ,;†", "@f:1|Ȯ,;9@f;?,", "5Ȯ+,", "Ȯ?Ȯ,,,"]:
            for inp in ([3, 4], [], [8]):
                mcs.append((p, "", inp))
        # inputs that are LISTS, read, passed to elements that build a changed list, and read again when the cursor
        # wraps: the second delivery is the input as given (the run must not have changed the program's inputs)
        for p in ["?0 9Ȧ,?,", "?:0 9Ȧ_,?,", "0 9Ȧ,?,", "?ÞḊ_?,", "?Ṙ,?,", "?s,?,", "λ0 9Ȧ;†,?,", "?1 7Ȧ,,", "?0 9Ȧ→a ?,←a,", "?ḣ__?,", "?U_?,",
                  "?2 0Ȧ?2 1Ȧ,,?,"]:
            for inp in ([[1, 2, 3]], [[3, 1, 2], 5], [[[1, 2], [3]]]):
                mcs.append((p, "", inp))
        mobs, mv, _, mst = machine.validate(s, mcs)
    tally = {}
    for (inp, h), v, o in zip(cs, verdicts, obs):
        tally[v] = tally.get(v, 0) + 1
        if v.startswith("violation"):
            prog = common.uncps(o["text"])
            V.add(f"{v.split(':', 1)[1]}:{prog!r}:inputs={inp!r}",
                  {"program": prog, "inputs": inp, "history": h, "reads": o["reads"], "printed": common.uncps(o["out"])})
        elif v.startswith("specviolation"):
            V.add_drift({"inputs": inp, "history": h, "verdict": v})
    mt = {}
    for (p, fl, inp), v in zip(mcs, mv):
        key = ":".join(v.split(":")[:2]) if v.startswith("skip") else v
        mt[key] = mt.get(key, 0) + 1
        if v.startswith("violation"):
            V.add(f"machine:{v.split(':', 1)[1]}:{p!r}:inputs={inp!r}", {"program": p, "inputs": inp, "verdict": v})
    tally["machine-programs"] = mt
    rc = V.finish()
    common.write_evidence(
        PID, tier, t0,
        {
            "states": mc["distinct"], "transitions": mc["generated"], "traces_validated_against_impl": len(cs),
            "samples": [{"inputs": inp, "history": h, "program": compile_history(h), "verdict": v}
                        for (inp, h), v in list(zip(cs, verdicts))[:: max(1, len(cs) // 10)][:10]],
            "evaluations": len(cs), "distinct_nontrivial": len({(tuple(i), compile_history(h)) for i, h in cs}),
            "rule": f"every history of <= {exh} actions over 13 parametrised actions (explicit read, implicit pops of "
                    "arity 1-3, lambda / function entry with 0-3 arguments, leave; nesting <= 2) on 4 input lists, "
                    "plus random histories of length <= 12 (nesting <= 3) on input lists of length 0..4; "
                    "distinct (inputs, compiled program) pairs",
            "verdicts": tally,
            "mc": {"module": "MC_Input", "distinct": mc["distinct"],
                   "invariants": ["StreamIsCyclic", "CursorIsCount", "InnerReadsAreArguments"]},
            "trace_tlc": {k: st[k] for k in st if k != "extra"}, "exhaustive": False,
        },
        ["the harness compiles a history to a program whose every delivered value is printed; "
         "returning from a lambda performs one hidden implicit read (the result pop), which the replay inserts",
         "reads are logged at the return of the outermost get_input (harness-side wrapper)"],
        len(V.violations),
    )
    print(f"C11 {tier}: {len(cs)} histories, verdicts {tally}, MC {mc['distinct']} states, {time.time() - t0:.1f}s")
    return rc
