SPECIFICATION Spec
CONSTANT MaxDigits = 3
INVARIANT ConvOK
INVARIANT AddOK
INVARIANT MulOK
INVARIANT LeqOK
INVARIANT EqOK
INVARIANT DenoteOK
CHECK_DEADLOCK FALSE
