---- MODULE Trace_Arith ----
(***************************************************************************)
(* C07 on the implementation: one event per call of a number overload,     *)
(*   op, a, b, r : rationals logged exactly as [neg, num, den] digit lists *)
(*   rty : type class of the result ("int" | "rational" | "float" | ...)   *)
(*   k   : witness for modulo (floor(a/b) computed by the harness with     *)
(*         Python integers; VERIFIED here, not trusted), err               *)
(* Prop_C07: the result is an int / exact rational and ArithOK holds.      *)
(***************************************************************************)
EXTENDS VyArith, Json, IOUtils, TLC, TLCExt

BatchFile == JsonDeserialize(IOEnv.TRACE_FILE)
ASSUME TLCSet(7, BatchFile)
Batch == TLCGet(7)

VARIABLES tid, phase
T == Batch[tid]

RatOf(x) == Rat(SFromDigits(x.neg, x.num), FromDigits(x.den))

CallVerdict(c) ==
    IF c.err # "" THEN "violation:raised-" \o c.op
    ELSE IF c.rty \notin {"int", "rational"} THEN "violation:type-" \o c.op
    ELSE IF ~ArithOK(c.op, RatOf(c.a), RatOf(c.b), RatOf(c.r), RatOf(c.k)) THEN "violation:value-" \o c.op
    ELSE "ok"

RECURSIVE FirstBad(_, _)
FirstBad(cs, i) == IF i > Len(cs) THEN "ok"
                   ELSE IF CallVerdict(cs[i]) # "ok" THEN CallVerdict(cs[i]) \o "@" \o ToString(i)
                   ELSE FirstBad(cs, i + 1)

Init == tid \in 1..Len(Batch) /\ phase = "start"
Decide == /\ phase = "start" /\ phase' = "done" /\ tid' = tid
          /\ PrintT(<<"V", tid, FirstBad(T.calls, 1)>>)
Next == Decide
====
