"""C05 Numeric literals denote exactly their decimal value.

Spec:  MC_Lexer (number scanning: no character lost, documented splitting,
       maximal tokens, for every string <= 6/7 over {0,1,2,9,.}),
       MC_BigNat (BigNat/Denote agree with native arithmetic, exhaustive small).
Bind:  each literal text is run alone on the real transpiler+exec; TLC
       (Trace_Number) lexes the text with the reference lexer, denotes every
       token (VyNumber.Denote) and compares type class and exact value.
"""
from __future__ import annotations

import itertools
import time

from . import common, runner, tlc
from .common import cps

PID = "C05"


NSIMPLIFY_SIG = "call-site:transpile_token-NUMBER:sympy.nsimplify(str)-without-rational-is-inexact"


def cause_is_nsimplify(text, stack):
    """True iff the literal was lowered by the pinned template `sympy.nsimplify("<token>")`
    and every pushed value is exactly what that call returns (so the inexactness is
    sympy.nsimplify's heuristic, the known call site, and nothing else)."""
    import sympy
    from vyxal.lexer import tokenise
    from vyxal.transpile import transpile

    try:
        toks = [t for t in tokenise(text) if t.name.value == "number"]
        code = "\n".join(ln for ln in transpile(text).split("\n") if ln.strip() != "pass")
        want = [f'stack.append(sympy.nsimplify("{"0.5" if t.value == "." else t.value}"))' for t in toks]
        if [ln for ln in code.split("\n") if ln.strip()] != want or len(stack) != len(toks):
            return False
        return all(v == sympy.nsimplify("0.5" if t.value == "." else t.value) for v, t in zip(stack, toks))
    except Exception:  # noqa: BLE001
        return False


PLAIN = set("0123456789. ")           # digits, points and the space that separates literals
VMARK, CMARK = "\x00V", "\x00C"       # case markers: lexed under flag V / run inside a context
# (a context may hold the literal several times: then every copy must arrive -- a literal written after a modifier
#  is a constant and takes nothing from the stack)
CONTEXTS = ["⟨□⟩", "λ□;†", "1[□]", "□w", "⟨⟨□⟩|⟨⟩⟩", "□→a ←a", "1(□)", "□:_", "□ 1ß□", "□ □ ₌□ □", "□ □ ₍□ □", "□ 0ß□ □"]


# how many leaves each context leaves on the stack (all equal to the literal's value)
CONTEXT_LEAVES = [1, 1, 1, 1, 1, 1, 1, 1, 2, 4, 4, 2]


def leaves(v, acc):
    from vyxal.LazyList import LazyList

    if isinstance(v, (list, LazyList)):
        for x in v:
            leaves(x, acc)
    else:
        acc.append(v)
    return acc


def observe(text):
    from vyxal.lexer import tokenise

    from . import project

    vflag = text.startswith(VMARK)
    if vflag:
        text = text[2:]
    ctxi = -1
    if text.startswith(CMARK):
        ctxi, text = ord(text[2]) - 65, text[3:]
    try:
        toks = project.toks(tokenise(text, True) if vflag else tokenise(text))
    except Exception as e:  # noqa: BLE001
        toks = [{"k": "lexer-raised:" + type(e).__name__, "v": []}]
    if vflag or not set(text) <= PLAIN:
        # a literal directly followed by something else: only the scanning is observed (nothing is run)
        return {"a": cps(text), "vals": [], "err": "", "toks": toks, "lexonly": True, "vflag": vflag}
    if ctxi >= 0:
        # the literal inside a structure / behind an element that wraps or copies it: every leaf of what is
        # left on the stack is the literal's value
        stack, ctx, err = runner.exec_text(CONTEXTS[ctxi].replace("□", text))
        vals = [runner.num_json(v) for v in leaves(stack or [], [])]
        return {"a": cps(text), "vals": vals, "err": err or "", "lexonly": False, "vflag": False,
                "reps": CONTEXT_LEAVES[ctxi]}
    stack, ctx, err = runner.exec_text(text)
    vals = [runner.num_json(v) for v in (stack or [])]
    return {"a": cps(text), "vals": vals, "err": err or "", "toks": toks, "lexonly": False, "vflag": False}


def cases(tier, rng):
    out = []
    top = 20000 if tier == "quick" else 1000000
    out += [str(i) for i in range(0, top + 1)]
    for k in range(1, 61):
        out += [str(10 ** k - 1), str(10 ** k), str(10 ** k + 1)]
    # every digit/point string up to length 5 (quick) / 6 (thorough): splitting
    n = 5 if tier == "quick" else 6
    for L in range(1, n + 1):
        for tup in itertools.product("0129.", repeat=L):
            out.append("".join(tup))
    nd = 3000 if tier == "quick" else 60000
    for _ in range(nd):
        ip = "".join(rng.choice("0123456789") for _ in range(rng.randint(0, 25)))
        fp = "".join(rng.choice("0123456789") for _ in range(rng.randint(0, 18)))
        if ip.startswith("0") and len(ip) > 1:
            ip = "1" + ip
        out.append(ip + "." + fp if (fp or rng.random() < 0.3) else (ip or "7"))
    out += ["0.1", "0.30", "1.50", ".5", "5.", ".", "0", "00", "0.0.0", "1..2", "3.14159265358979323846",
            "0.000000000000000001", "123456789012345678901234567890", "0.3333333333333333", "2.675", "1.005",
            "9007199254740993", "0.1234567890123456789", "4.35", "1.1", "100.001", "0.7071067811865476"]
    # several literals in one program (scanner state must not leak from one literal to the next): run
    lits = ["1.5", "2.5", "0.5", ".5", "5.", "10", "0", "7", "1.25", "3.", "00", "0.0", "12.75", ".", "1..2", "9.5.5"]
    for a in lits:
        for b in lits:
            out.append(a + " " + b)
            out.append(a + " " + b + " " + a)
    for _ in range(300 if tier == "quick" else 6000):
        out.append(" ".join(rng.choice(lits + [str(rng.randint(0, 999)), "%d.%d" % (rng.randint(0, 99), rng.randint(0, 999))])
                            for _ in range(rng.randint(2, 5))))
    # ... and separated by elements / structure characters: scanning only
    for a in lits[:8]:
        for b in lits[:8]:
            for sep in ("+", "|", "\n", ",", "⟨", "`x`", "→a", "#c\n"):
                out.append(a + sep + b)
    # literals inside structures and behind wrapping / copying elements (values pass through list building,
    # lambdas, variables): the same exact value must arrive
    sample = [t for t in out if set(t) <= set("0123456789.") and t.count(".") <= 1 and t not in (".", "")
              and not (len(t) > 1 and t[0] == "0" and t[1] != ".")]           # exactly one literal
    step = max(1, len(sample) // (2500 if tier == "quick" else 60000))
    for i, t in enumerate(sample[::step]):
        out.append(CMARK + chr(65 + i % len(CONTEXTS)) + t)
    for t in ["9007199254740993.5", "18014398509481985.25", "123456789012345678.5", "4503599627370497.5", "0.1", "2.5",
              "36028797018963969.75", "99999999999999999999.5", "1.000000000000000001"]:
        for ci in range(len(CONTEXTS)):
            out.append(CMARK + chr(65 + ci) + t)
    # flag V (one-character variable names): a literal right after a variable access is still a literal
    for lit in ["5", "31", "2.5", "0", ".5", "12"]:
        for pre in ("→", "←", "→x", "←x", "7 →", "→_", "→xy", "1→a"):
            out.append(VMARK + pre + lit)
            out.append(VMARK + pre + lit + " " + lit)
    # a literal directly followed (and preceded) by every character of the code page: where the number ends
    from vyxal.encoding import codepage
    for lit in ["7", "12", "2.5", "0", "0.5", "5.", ".5", "10", "007", "1.", "90", "3.25"]:
        for ch in codepage:
            out.append(lit + ch)
            out.append(lit + ch + lit)
            out.append(ch + lit)
    return list(dict.fromkeys(out))


def main(tier):
    t0 = time.time()
    rng = common.rng(5)
    V = common.Verdicts(PID)
    q = "_quick" if tier == "quick" else ""
    with common.Scratch(PID) as s:
        mc1 = tlc.model_check(s, "MC_Lexer", cfg="MC_Lexer_num" + q, workers=16)
        mc2 = tlc.model_check(s, "MC_BigNat", cfg="MC_BigNat" + q, workers=16)
        for name, mc in (("MC_Lexer", mc1), ("MC_BigNat", mc2)):
            if not mc["ok"]:
                V.add(f"spec:{name}:{mc['violated']}", {"trace": tlc.counterexample(mc["out"])})
        common.import_repo()
        cs = cases(tier, rng)
        obs = common.pool_map(observe, cs, initfn=common.import_repo)
        verdicts, st = tlc.validate(s, "Trace_Number", obs, cfg="Trace_Number.cfg", chunk=6000)
    tally = {}
    nontriv = 0
    for text, v, o in zip(cs, verdicts, obs):
        tally[v] = tally.get(v, 0) + 1
        head = v.split(":")[0]
        if head == "violation" and len(V.violations) >= 40:
            V.add(f"literal:{text[:40]!r}", {"literal": text, "verdict": v, "note": "cause not analysed: 40 unlisted violations already"})
        elif head == "violation":
            # (only texts of digits and points are ever run; a literal next to an arbitrary element is not)
            # the literal text itself, without the case markers (flag V / context)
            bare = text[2:] if text.startswith(VMARK) else text[3:] if text.startswith(CMARK) else text
            shown = text.replace(VMARK, "[flag V] ").replace(CMARK, "[in context] ")
            stack, _, err = runner.exec_text(bare) if set(bare) <= PLAIN else (None, None, "not-run")
            same = True
            if text.startswith(CMARK) and not err:
                # in a context the cause is the known one only if what arrived IS the bare literal's value
                cst, _, cerr = runner.exec_text(CONTEXTS[ord(text[2]) - 65].replace("□", bare))
                got = leaves(cst or [], [])
                same = not cerr and len(got) >= 1 and all(g == stack[0] for g in got)
            if v in ("violation:type", "violation:value") and not err and same and cause_is_nsimplify(bare, stack):
                V.add(NSIMPLIFY_SIG, {"literal": shown, "verdict": v})
            else:
                V.add(f"literal:{shown}", {"literal": shown, "verdict": v})
        if head in ("ok", "violation"):
            nontriv += 1
    rc = V.finish()
    common.write_evidence(
        PID, tier, t0,
        {
            "states": mc1["distinct"] + mc2["distinct"], "transitions": mc1["generated"] + mc2["generated"],
            "traces_validated_against_impl": nontriv,
            "samples": [{"literal": a, "verdict": v} for a, v in list(zip(cs, verdicts))[:: max(1, len(cs) // 12)][:12]],
            "evaluations": len(cs), "distinct_nontrivial": nontriv,
            "rule": "integers 0..20000 (quick) / 0..10^6 (thorough); 10^k-1, 10^k, 10^k+1 to 10^60; every string "
                    "<= 5/6 over {0,1,2,9,.}; random decimals with <= 25 integer and <= 18 fractional digits; "
                    "distinct literal texts decided (not skipped) by TLC",
            "verdicts": tally,
            "mc": [{"module": "MC_Lexer", "cfg": "MC_Lexer_num" + q, "distinct": mc1["distinct"]},
                   {"module": "MC_BigNat", "distinct": mc2["distinct"]}],
            "trace_tlc": st, "exhaustive": False,
        },
        ["reference lexer (VyLexer) defines the documented splitting; Denote defines the value spelled",
         "values are logged as exact numerator/denominator digit strings taken from .p/.q (no float conversion)"],
        len(V.violations),
    )
    print(f"C05 {tier}: {len(cs)} literals, verdicts {tally}, {time.time() - t0:.1f}s")
    return rc
