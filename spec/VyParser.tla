---- MODULE VyParser ----
(***************************************************************************)
(* The Vyxal 2 parser (vyxal/parse.py parse, _get_branches,                *)
(* process_parameters, variable_name): a bracket-stack machine over the    *)
(* token queue, recursive on branches.                                     *)
(*                                                                         *)
(* This is the REFERENCE parser: a token is syntax only if its kind is     *)
(* "general" (documents/specs/Lexer.md: literals are data).  Where the     *)
(* documents are silent the reference follows the code, and the deviation  *)
(* is named:                                                               *)
(*   ModifierCapturesRest  - everything after a modifier in the same       *)
(*                           branch is parsed with the modifier as parent  *)
(*   FunctionBodyParentIsCall - a function body's parent is the "@"        *)
(*                           structure class (FunctionCall), not FunctionDef *)
(*   IfIsTransparent       - if-branches inherit the enclosing parent      *)
(*                           when there is one; list items never do (each  *)
(*                           item is its own function)                     *)
(*   ConditionOutsideLoop  - a while condition has no loop parent          *)
(*   StrayCloserDropped    - a closer that does not match the innermost    *)
(*                           open structure is discarded                   *)
(*                                                                         *)
(* Tree nodes are records tagged by field t.                               *)
(***************************************************************************)
EXTENDS VyLexer

IsSyn(tok) == tok.k = "general"
IsChar(tok, c) == tok.k = "general" /\ tok.v = <<c>>
IsOpener(tok) == IsSyn(tok) /\ Len(tok.v) = 1 /\ tok.v[1] \in Openers
IsCloser(tok) == IsSyn(tok) /\ Len(tok.v) = 1 /\ tok.v[1] \in Closers
IsMod(tok, S) == IsSyn(tok) /\ Len(tok.v) = 1 /\ tok.v[1] \in S

ParentOf(c) ==
    CASE c = c_lbrack -> "if" [] c = c_lparen -> "for" [] c = c_lbrace -> "while"
      [] c = c_at -> "fncall" [] c = c_lambda -> "lam" [] c = c_lmap -> "lmap"
      [] c = c_lfilter -> "lfilter" [] c = c_lsort -> "lsort" [] OTHER -> "list"

Parents == {"none", "if", "for", "while", "fncall", "lam", "lmap", "lfilter",
            "lsort", "list", "mon", "dy", "tri"}

---------------------------------------------------------------------------
(* _get_branches: runs while tokens remain and the bracket stack is        *)
(* non-empty.  State: the token queue q, the bracket stack bs (closers     *)
(* owed), the branches collected so far.  Returns <<branches, rest>>.      *)

AppendLast(brs, tok) == [brs EXCEPT ![Len(brs)] = Append(@, tok)]

RECURSIVE GetBranches(_, _, _)
GetBranches(q, bs, brs) ==
    IF q = <<>> \/ bs = <<>> THEN <<brs, q>>
    ELSE LET tok == Head(q)
             r == Tail(q)
         IN IF IsOpener(tok)                                  \* OpenInner
            THEN GetBranches(r, Append(bs, CloserOf(tok.v[1])), AppendLast(brs, tok))
            ELSE IF IsChar(tok, c_pipe)                       \* Branch
            THEN IF Len(bs) = 1
                 THEN GetBranches(r, bs, Append(brs, <<>>))
                 ELSE GetBranches(r, bs, AppendLast(brs, tok))
            ELSE IF IsCloser(tok)
            THEN IF tok.v[1] = bs[Len(bs)]
                 THEN IF Len(bs) = 1
                      THEN GetBranches(r, <<>>, brs)          \* CloseOuter
                      ELSE GetBranches(r, SubSeq(bs, 1, Len(bs) - 1), AppendLast(brs, tok))  \* CloseInner
                 ELSE GetBranches(r, bs, brs)                 \* StrayCloserDropped
            ELSE GetBranches(r, bs, AppendLast(brs, tok))     \* Collect

---------------------------------------------------------------------------
(* helpers for the branches that are names / parameters / arity            *)

RECURSIVE ConcatValues(_)
ConcatValues(ts) == IF ts = <<>> THEN <<>> ELSE Head(ts).v \o ConcatValues(Tail(ts))

Filter(s, S) ==
    LET F[i \in 0..Len(s)] == IF i = 0 THEN <<>>
                              ELSE IF s[i] \in S THEN Append(F[i - 1], s[i]) ELSE F[i - 1]
    IN F[Len(s)]

VariableName(ts) == Filter(ConcatValues(ts), NameChars)

RECURSIVE SplitOn(_, _, _)
SplitOn(s, c, cur) ==
    IF s = <<>> THEN <<cur>>
    ELSE IF Head(s) = c THEN <<cur>> \o SplitOn(Tail(s), c, <<>>)
    ELSE SplitOn(Tail(s), c, Append(cur, Head(s)))

AllDigits(s) == s # <<>> /\ \A i \in 1..Len(s) : s[i] \in Digits

(* reference: a parameter is a count, "*", or a name of letters/underscore *)
SanitiseParam(p) ==
    IF AllDigits(p) \/ p = <<c_star>> THEN p ELSE Filter(p, NameChars)

ProcessParameters(ts) ==
    LET comps == SplitOn(ConcatValues(ts), c_colon, <<>>)
    IN [name |-> comps[1],
        params |-> [i \in 1..(Len(comps) - 1) |-> SanitiseParam(comps[i + 1])]]

RECURSIVE ToNat(_)
ToNat(ds) == IF ds = <<>> THEN 0 ELSE 10 * ToNat(SubSeq(ds, 1, Len(ds) - 1)) + (ds[Len(ds)] - 48)

DefaultArity == -1
ArityError == -2

(* int(branches[0][0].value): first token of the arity branch *)
LambdaArity(br) ==
    IF br = <<>> THEN ArityError
    ELSE IF AllDigits(br[1].v) /\ Len(br[1].v) <= 8 THEN ToNat(br[1].v) ELSE ArityError

---------------------------------------------------------------------------
(* parse(tokens, parent)                                                   *)

Gen(tok) == [t |-> "gen", tok |-> tok]
RawTok(tok) == [t |-> "tok", tok |-> tok]

RECURSIVE Parse(_, _)
RECURSIVE ParseEach(_, _)
ParseEach(brs, parent) ==
    IF brs = <<>> THEN <<>> ELSE <<Parse(Head(brs), parent)>> \o ParseEach(Tail(brs), parent)

Structure(open, brs, parent) ==
    LET own == ParentOf(open)
        last == brs[Len(brs)]
    IN CASE open = c_lparen ->
              [t |-> "for",
               names |-> [i \in 1..(Len(brs) - 1) |-> VariableName(brs[i])],
               body |-> Parse(last, own)]
         [] open = c_lbrace ->
              [t |-> "while",
               cond |-> IF Len(brs) = 1 THEN <<RawTok(Tok("number", <<49>>))>>
                        ELSE Parse(brs[1], "none"),      \* ConditionOutsideLoop: no loop to break there
               body |-> Parse(last, own)]
         [] open = c_at ->
              LET pp == ProcessParameters(brs[1])
              IN IF Len(brs) > 1
                 THEN [t |-> "fndef", name |-> pp.name, params |-> pp.params,
                       body |-> Parse(last, own)]          \* FunctionBodyParentIsCall
                 ELSE IF pp.params = <<>> THEN [t |-> "fncall", name |-> pp.name]
                 ELSE [t |-> "error", why |-> "call-with-parameters"]
         [] open = c_lambda ->
              LET ar == IF Len(brs) = 1 THEN DefaultArity ELSE LambdaArity(brs[1])
              IN IF ar = ArityError THEN [t |-> "error", why |-> "arity"]
                 ELSE [t |-> "lam", arity |-> ar, body |-> Parse(last, own)]
         [] open \in {c_lmap, c_lfilter, c_lsort} ->
              [t |-> own, body |-> Parse(brs[1], own)]
         [] OTHER ->       \* if statement (IfIsTransparent), list literal
              [t |-> own,
               br |-> ParseEach(brs, IF own = "list" \/ parent = "none" THEN own ELSE parent)]

ModArity(c) == IF c \in MonadicMods THEN 1 ELSE IF c \in DyadicMods THEN 2 ELSE 3
ModParent(c) == IF c \in MonadicMods THEN "mon" ELSE IF c \in DyadicMods THEN "dy" ELSE "tri"

ModNode(c, rem) ==
    LET k == ModArity(c)
    IN IF Len(rem) < k THEN <<[t |-> "error", why |-> "modifier-operands"]>>
       ELSE LET ops == SubSeq(rem, 1, k)
                node == IF c \in {m_lam1, m_lam2, m_lam3}
                        THEN [t |-> "lam", arity |-> 1, body |-> ops]
                        ELSE [t |-> ModParent(c), m |-> c, ops |-> ops]
            IN <<node>> \o SubSeq(rem, k + 1, Len(rem))

Parse(q, parent) ==
    IF q = <<>> THEN <<>>
    ELSE LET head == Head(q)
             r == Tail(q)
         IN CASE head.k \in {"string", "character", "variable_get", "variable_set"} ->
                   <<Gen(head)>> \o Parse(r, parent)
              [] IsChar(head, c_X) -> <<[t |-> "break", parent |-> parent]>> \o Parse(r, parent)
              [] IsChar(head, c_x) -> <<[t |-> "recurse", parent |-> parent]>> \o Parse(r, parent)
              [] IsOpener(head) ->
                   LET gb == GetBranches(r, <<CloserOf(head.v[1])>>, <<<<>>>>)
                   IN <<Structure(head.v[1], gb[1], parent)>> \o Parse(gb[2], parent)
              [] IsMod(head, AllMods) ->
                   IF r = <<>> THEN <<>>
                   ELSE ModNode(head.v[1], Parse(r, ModParent(head.v[1])))   \* ModifierCapturesRest
              [] IsCloser(head) \/ IsChar(head, c_pipe) \/ IsChar(head, c_space) ->
                   Parse(r, parent)                                      \* DropStrayCloser
              [] OTHER -> <<Gen(head)>> \o Parse(r, parent)

ParseText(text) == Parse(Lex(text), "none")

---------------------------------------------------------------------------
(* Shape: the tree with every literal payload abstracted to its kind.      *)
(* Used by C03 (literal contents are data).                                *)

LiteralKinds == {"string", "number", "character", "compressed_number",
                 "compressed_string", "codepage_number"}

RECURSIVE Shape(_)
RECURSIVE ShapeSeq(_)
RECURSIVE ShapeSeqSeq(_)
ShapeSeq(ns) == IF ns = <<>> THEN <<>> ELSE <<Shape(Head(ns))>> \o ShapeSeq(Tail(ns))
ShapeSeqSeq(bs) == IF bs = <<>> THEN <<>> ELSE <<ShapeSeq(Head(bs))>> \o ShapeSeqSeq(Tail(bs))
Shape(n) ==
    CASE n.t \in {"gen", "tok"} ->
           IF n.tok.k \in LiteralKinds THEN [t |-> n.t, lit |-> n.tok.k] ELSE n
      [] n.t \in {"if", "list"} -> [t |-> n.t, br |-> ShapeSeqSeq(n.br)]
      [] n.t = "for" -> [t |-> "for", names |-> n.names, body |-> ShapeSeq(n.body)]
      [] n.t = "while" -> [t |-> "while", cond |-> ShapeSeq(n.cond), body |-> ShapeSeq(n.body)]
      [] n.t = "fndef" -> [t |-> "fndef", name |-> n.name, params |-> n.params, body |-> ShapeSeq(n.body)]
      [] n.t = "lam" -> [t |-> "lam", arity |-> n.arity, body |-> ShapeSeq(n.body)]
      [] n.t \in {"lmap", "lfilter", "lsort"} -> [t |-> n.t, body |-> ShapeSeq(n.body)]
      [] n.t \in {"mon", "dy", "tri"} -> [t |-> n.t, m |-> n.m, ops |-> ShapeSeq(n.ops)]
      [] OTHER -> n

RECURSIVE HasError(_)
RECURSIVE AnyError(_)
RECURSIVE AnyErrorSeq(_)
AnyError(ns) == ns # <<>> /\ (HasError(Head(ns)) \/ AnyError(Tail(ns)))
AnyErrorSeq(bs) == bs # <<>> /\ (AnyError(Head(bs)) \/ AnyErrorSeq(Tail(bs)))
HasError(n) ==
    CASE n.t = "error" -> TRUE
      [] n.t \in {"if", "list"} -> AnyErrorSeq(n.br)
      [] n.t \in {"for", "fndef", "lam", "lmap", "lfilter", "lsort"} -> AnyError(n.body)
      [] n.t = "while" -> AnyError(n.cond) \/ AnyError(n.body)
      [] n.t \in {"mon", "dy", "tri"} -> AnyError(n.ops)
      [] OTHER -> FALSE

---------------------------------------------------------------------------
(* Well-formedness of headers (documents/specs/Structures.md): the part of *)
(* the documented grammar the parser does not enforce itself.              *)
(*   function header  name(:(digits | name | "*"))*                        *)
(*   for-loop header  letters and underscores                              *)
(* A NAME (loop variable, function name) may be written with any plain     *)
(* tokens: the parser keeps its letters / the transpiler its identifier    *)
(* characters (parse.py: "must be made into a valid variable name").       *)
(*   lambda arity     exactly one non-negative integer literal             *)

HeaderTokOK(tok) ==
    \/ tok.k = "general" /\ Len(tok.v) = 1 /\ tok.v[1] \in NameChars \cup {c_colon, c_star}
    \/ tok.k = "number" /\ AllDigits(tok.v)
NameTokOK(tok) == tok.k = "general" /\ Len(tok.v) = 1 /\ tok.v[1] \in NameChars
LooseNameTokOK(tok) ==
    \/ tok.k = "general" /\ tok.v # <<>> /\ ~IsOpener(tok) /\ ~IsCloser(tok) /\ tok.v # <<c_pipe>>
    \/ tok.k = "number" /\ AllDigits(tok.v)

FnHeaderOK(br) ==
    /\ \A i \in 1..Len(br) : LooseNameTokOK(br[i])
    /\ LET comps == SplitOn(ConcatValues(br), c_colon, <<>>)
       IN /\ comps[1] # <<>>
          /\ \A i \in 2..Len(comps) :
                \/ AllDigits(comps[i]) /\ Len(comps[i]) <= 2
                \/ comps[i] = <<c_star>>
                \/ comps[i] # <<>> /\ \A j \in 1..Len(comps[i]) : comps[i][j] \in NameChars

RECURSIVE HeadersOK(_)
RECURSIVE HeadersOKEach(_)
HeadersOKEach(brs) == IF brs = <<>> THEN TRUE ELSE (HeadersOK(Head(brs)) /\ HeadersOKEach(Tail(brs)))

StructHeadersOK(open, brs) ==
    LET last == brs[Len(brs)]
    IN CASE open = c_lparen ->
              /\ Len(brs) <= 2
              /\ (Len(brs) = 2 => \A i \in 1..Len(brs[1]) : LooseNameTokOK(brs[1][i]))
              /\ HeadersOK(last)
         [] open = c_lbrace -> Len(brs) <= 2 /\ HeadersOKEach(brs)
         [] open = c_at -> Len(brs) <= 2 /\ FnHeaderOK(brs[1]) /\ (Len(brs) = 2 => HeadersOK(last))
         [] open = c_lambda ->
              /\ Len(brs) <= 2
              /\ (Len(brs) = 2 => Len(brs[1]) = 1 /\ brs[1][1].k = "number" /\ AllDigits(brs[1][1].v))
              /\ HeadersOK(last)
         [] open \in {c_lmap, c_lfilter, c_lsort} -> Len(brs) = 1 /\ HeadersOK(last)
         [] OTHER -> HeadersOKEach(brs)

HeadersOK(q) ==
    IF q = <<>> THEN TRUE
    ELSE LET head == Head(q)
             r == Tail(q)
         IN IF IsOpener(head)
            THEN LET gb == GetBranches(r, <<CloserOf(head.v[1])>>, <<<<>>>>)
                 IN StructHeadersOK(head.v[1], gb[1]) /\ HeadersOK(gb[2])
            ELSE HeadersOK(r)

WellFormedToks(q) == HeadersOK(q) /\ ~AnyError(Parse(q, "none"))
====
