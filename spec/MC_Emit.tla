---- MODULE MC_Emit ----
(***************************************************************************)
(* C02 at design level: the environment writes any program token by token  *)
(* (structural alphabet, one atom, X, x, a monadic and a dyadic modifier); *)
(* every well-formed one must lower to valid Python block structure, and   *)
(* so must each of its end-truncations (they are reachable states too).    *)
(***************************************************************************)
EXTENDS VyEmit, TLC

CONSTANTS MaxToks

G(c) == Tok("general", <<c>>)
Alphabet == {Tok("number", <<49>>), G(c_lbrack), G(c_lparen), G(c_lbrace), G(c_lambda), G(c_lmap), G(c_lfilter),
             G(c_lsort), G(c_llist), G(c_at), G(102), G(c_pipe), G(c_semi), G(c_rbrack), G(c_rparen), G(c_rbrace),
             G(c_rlist), G(c_X), G(c_x), G(m_v), G(m_para)}

VARIABLE prog
Init == prog = <<>>
Emit == Len(prog) < MaxToks /\ \E t \in Alphabet : prog' = Append(prog, t)
Next == Emit
Spec == Init /\ [][Next]_prog

(* modifiers must be followed by enough elements: the parser yields no error node *)
Lowered == ProgramLines(Parse(prog, "none"))
ValidPython == WellFormedToks(prog) => Valid(Lowered)
====
