SPECIFICATION Spec
CONSTANTS
  Alphabet = {92, 96, 34, 39, 10, 97, 110, 120, 48, 955}
  MaxLen = 4
INVARIANT OneStringToken
INVARIANT LiteralCloses
INVARIANT RoundTrip
CHECK_DEADLOCK FALSE
