"""C12 Interpreter context is balanced after every construct.

Same machinery as C01 (MC_Machine: BalancedAtEnd / TopLevelBalanced on every
small program; Trace_Machine: the four depths and the context value logged by
every module-frame probe and at the end of the run); the verdict is the
"W" line of Trace_Machine (Prop_C12).
"""
import time

from . import c01


def main(tier):
    return c01.run("C12", tier, time.time(), "W", 12)
