SPECIFICATION LexSpec
CONSTANTS
  Alphabet = {48, 49, 50, 57, 46}
  MaxLen = 6
INVARIANT TokenTypeOK
INVARIANT RunAgrees
INVARIANT NoCharLost
INVARIANT SplitOK
INVARIANT Maximal
PROPERTY Progress
CHECK_DEADLOCK FALSE
