SPECIFICATION Spec
CONSTANTS
  Alphabet = {34, 39, 92, 10, 91, 93, 40, 41, 94, 96, 58, 59, 113, 90, 55, 95, 32, 123, 125, 61}
  MaxLen = 3
  KeepParam <- KeepParamData
  KeepName <- KeepNameData
INVARIANT StepAgrees
INVARIANT NeverClosedEarly
INVARIANT AtEnd
INVARIANT ParamIdentOK
INVARIANT NameIdentOK
CHECK_DEADLOCK FALSE
