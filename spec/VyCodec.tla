---- MODULE VyCodec ----
(***************************************************************************)
(* C15: positional codecs (helpers.to_base_digits / from_base_digits /     *)
(* to_base_alphabet / from_base_alphabet, elements.to_base / from_base and *)
(* the base-255 compressions built on them).                               *)
(*   Horner(ds, b)   the number a digit sequence denotes (native / BigNat) *)
(*   the alphabets are the extracted code page minus the literal's own     *)
(*   delimiter (so a compressed body can never close its literal early)    *)
(***************************************************************************)
EXTENDS BigNat, VyConfigData, FiniteSets

RECURSIVE Horner(_, _)
Horner(ds, b) == IF ds = <<>> THEN 0 ELSE Horner(SubSeq(ds, 1, Len(ds) - 1), b) * b + ds[Len(ds)]

RECURSIVE HornerBigR(_, _, _)
HornerBigR(ds, b, acc) == IF ds = <<>> THEN acc
                          ELSE HornerBigR(Tail(ds), b, BigAdd(BigMulSmall(acc, b), BigOfNat(Head(ds))))
HornerBig(ds, b) == HornerBigR(ds, b, <<>>)          \* b < 10^4

DigitsOK(ds, b) == \A i \in 1..Len(ds) : ds[i] >= 0 /\ ds[i] < b

Without(seq, c) == LET F[i \in 0..Len(seq)] == IF i = 0 THEN <<>>
                                               ELSE IF seq[i] = c THEN F[i - 1] ELSE Append(F[i - 1], seq[i])
                   IN F[Len(seq)]
NumberAlphabet == Without(Codepage, 187)     \* code page without the closing delimiter of a compressed number
StringAlphabet == Without(Codepage, 171)     \* ... of a compressed string
Base27 == <<32>> \o [i \in 1..26 |-> 96 + i]

PosIn(alpha, c) == IF \E i \in 1..Len(alpha) : alpha[i] = c THEN (CHOOSE i \in 1..Len(alpha) : alpha[i] = c) - 1 ELSE -1
IndicesIn(alpha, text) == [i \in 1..Len(text) |-> PosIn(alpha, text[i])]
AllIn(alpha, text) == \A i \in 1..Len(text) : PosIn(alpha, text[i]) >= 0

AlphabetsOK == /\ Len(NumberAlphabet) = 255 /\ Len(StringAlphabet) = 255
               /\ ~\E i \in 1..255 : NumberAlphabet[i] = 187
               /\ ~\E i \in 1..255 : StringAlphabet[i] = 171
====
